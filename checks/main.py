import sys, os, importlib
sys.path.insert(0, os.path.dirname(os.path.abspath(__file__)))


def main():
    args = sys.argv[1:]
    if not args:
        print("usage: check <id> [--tier quick|thorough] [--replay file]")
        return 2
    prop = args[0].upper()
    tier = os.environ.get("VERIF_TIER", "quick")
    replay = None
    i = 1
    while i < len(args):
        if args[i] == "--tier":
            tier = args[i + 1]
            i += 2
        elif args[i] == "--replay":
            replay = args[i + 1]
            i += 2
        else:
            i += 1
    if tier not in ("quick", "thorough"):
        tier = "quick"
    mod = importlib.import_module(prop.lower())
    return mod.run(tier, replay)


if __name__ == "__main__":
    sys.exit(main())
