from common import *
from l2 import *
import g01gen
import g02gen


def ref_of(fo):
    return [fo[:-3] + "_ref.go"]


def run(tier, replay=None):
    ck = Check("C01", tier, "translation_validation")
    corpus = os.path.join(VERIF, "corpus/c01")
    L = 2 if tier == "quick" else 3
    env = {"VERIF_L": str(L)}
    ck.bounds = {"corpus": "hand-kept programs under corpus/c01 (each function compared with a hand-written reference in strict left-to-right call-by-value semantics)",
                 "inputs": "ints: BitVec 64; bools; strings of <= 2 symbolic bytes; slices of <= %d symbolic elements; union values: case by choice, payload symbolic" % (L + 1)}
    ck.assumptions = ["the property's 'all programs' is covered only through the corpus (programs=<n> below)",
                      "effects are observed through foreign functions tr/trb/trs/emit declared with package_info _",
                      "formatted ints are restricted to 0..99 where a program prints them",
                      "native go build of the scratch module decides 'the emitted Go compiles' per corpus file"]
    fc = build_tool("fc")
    m = L2Module("c01")
    fos = sorted(glob.glob(os.path.join(corpus, "*.fo")))
    # generated family G01 (deterministic for seed and count)
    seed = int(os.environ.get("VERIF_SEED", "1") or 1)
    count = 32 if tier == "quick" else 160
    g_fo, g_go, g_names = g01gen.gen(seed, count)
    gdir = tempfile.mkdtemp(prefix="g01_", dir=scratch())
    open(os.path.join(gdir, "g01.fo"), "w").write(g_fo)
    fos.append(os.path.join(gdir, "g01.fo"))
    ck.seed = seed
    ck.bounds["generated_family_G01"] = "%d random programs (seed %d): let-normal-form bodies of 2..5 statements over int/bool with if/elif/else, &&/||, + - *const, comparisons, match on a 3-case union, pipe into a partial application, tuple destructuring, nested blocks to depth 2, tagged trace calls around sub-expressions" % (count, seed)
    # generated family G02 (closures, partial applications, nested matches, minimal parentheses, random indentation)
    count2 = 40 if tier == "quick" else 120
    h_fo, h_go, h_names = g02gen.gen(seed, count2)
    open(os.path.join(gdir, "g02.fo"), "w").write(h_fo)
    fos.append(os.path.join(gdir, "g02.fo"))
    ck.bounds["generated_family_G02"] = "%d random programs (seed %d): inner functions and lambdas capturing enclosing variables, stored partial applications leaving two parameters open, inferred generic helpers, nested matches (default-less inner match before an outer default arm, payload-ignoring arms), <= >= / not, pipe chains; half printed with the minimal parentheses of the published operator table, all with block indentation of 1..4 columns per level" % (count2, seed)
    m.transpile(fc, os.path.join(REPO, "pkg/pkg_all.foi"), fos)
    if "g01.fo" in m.programs:
        open(os.path.join(m.dir, "g01_ref.go"), "w").write(g_go)
    if "g02.fo" in m.programs:
        open(os.path.join(m.dir, "g02_ref.go"), "w").write(h_go)
    m.add_api()
    m.add_go([os.path.join(corpus, "common.go")] + [os.path.join(corpus, ref_of(p)[0]) for p in m.programs
                                                      if os.path.exists(os.path.join(corpus, ref_of(p)[0]))])
    ok = m.typecheck(ref_of)
    rp = NativeReplayer(m.dir, "main", [], use_modfile=False)
    if replay:
        j = json.load(open(replay))
        if j.get("kind") in ("rejected", "does-not-compile"):
            bad = dict(m.rejected, **m.not_compiling)
            print("replay: %s -> %s" % (j["program"], bad.get(j["program"], "accepted and compiles")))
            if j["program"] in bad:
                print("VIOLATION property=C01 replay=%s" % replay)
                return 1
            return 0
        from c12 import replay_one
        return replay_one(ck, rp, replay, env)
    for kind, table in (("rejected", m.rejected), ("does-not-compile", m.not_compiling)):
        for fo, msg in sorted(table.items()):
            key = "C01:%s:%s" % (fo, "fc rejects a corpus program" if kind == "rejected" else "emitted Go does not compile")
            path = os.path.join(ck.replay_dir(), "%s.%s.json" % (fo, kind))
            json.dump({"property": "C01", "kind": kind, "program": fo, "detail": msg}, open(path, "w"), indent=1)
            rec = {"key": key, "count": 1, "replay": path, "native_outcome": kind, "native_detail": msg[:300],
                   "assignment": {}, "msg": msg[:200]}
            kf = known_match("C01", key)
            if kf:
                rec["finding"] = kf.get("what", "")
                ck.known.append(rec)
            else:
                ck.violations.append(rec)
    if ok:
        res = run_symgo(m.dir, [], "main", "^Harness_C01_", steps=5000000, env=env, maxpaths=2000000, use_modfile=False,
                        timeout=300 if tier == "quick" else 1500)
        ck.add_run(res)
        ck.handle_violations(res, rp, env=env, timeout=60)
    ck.programs = len(m.programs) - 2 + (count if "g01.fo" in m.programs else 0) + (count2 if "g02.fo" in m.programs else 0)
    ck.extra["corpus_files"] = m.programs
    ck.extra["functions_compared"] = sum(len(re.findall(r"verifAssert\(", open(os.path.join(m.dir, f)).read()))
                                         for f in os.listdir(m.dir) if f.endswith("_ref.go"))
    return ck.finish()
