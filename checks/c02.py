from common import *
from l2 import *


def ref_of(fo):
    return [fo[:-3] + "_ref.go"]


def run(tier, replay=None):
    ck = Check("C02", tier, "translation_validation")
    corpus = os.path.join(VERIF, "corpus/c02")
    env = {}
    ck.bounds = {"signature_pins": "corpus/c02/i_infer.fo: 19 functions from the documentation's inference promises, each pinned by a Go assignment that type-checks iff type-parameter count/order and every parameter/result type are the principal ones",
                 "annotation_erasure": "9 functions x every subset of their redundant annotations (<= 3 each)",
                 "kernel": "unifier vs. reference mgu over generated type shapes: see Harness_C02_Unify*"}
    ck.assumptions = ["go build (go/types) is the decision procedure for 'the emitted package type-checks and has the pinned signature'",
                      "the behavioural part (independent instantiation of generic uses) runs symbolically as in C01"]
    fc = build_tool("fc")
    m = L2Module("c02")
    fos = sorted(glob.glob(os.path.join(corpus, "*.fo")))
    m.transpile(fc, os.path.join(REPO, "pkg/pkg_all.foi"), fos)
    m.add_api()
    m.add_go([os.path.join(corpus, "common.go")] + [os.path.join(corpus, ref_of(p)[0]) for p in m.programs])
    ok = m.typecheck(ref_of)
    mod = os.path.join(REPO, "fc")
    hp = [os.path.join(VERIF, "harness/fc"), API_DIR]
    if replay:
        j = json.load(open(replay))
        from c12 import replay_one
        if j.get("harness", "").startswith("Harness_C02_generic"):
            return replay_one(ck, NativeReplayer(m.dir, "main", [], use_modfile=False), replay, env)
        return replay_one(ck, NativeReplayer(mod, "main", hp), replay, env)
    for kind, table in (("rejected", m.rejected), ("does-not-compile", m.not_compiling)):
        for fo, msg in sorted(table.items()):
            key = "C02:%s:%s" % (fo, kind)
            path = os.path.join(ck.replay_dir(), "%s.%s.json" % (fo, kind))
            json.dump({"property": "C02", "kind": kind, "program": fo, "detail": msg}, open(path, "w"), indent=1)
            rec = {"key": key, "count": 1, "replay": path, "native_outcome": kind, "native_detail": msg[:300], "assignment": {}, "msg": msg[:200]}
            kf = known_match("C02", key)
            (ck.known if kf else ck.violations).append(dict(rec, finding=(kf or {}).get("what", "")))
    if not ok and not m.not_compiling:
        r = subprocess.run(["go", "build", "-o", os.devnull, "."], cwd=m.dir, env=GOENV, capture_output=True, text=True)
        key = "C02:pins:a signature pin does not type-check"
        path = os.path.join(ck.replay_dir(), "pins.json")
        json.dump({"property": "C02", "kind": "pins", "detail": r.stderr[-1500:]}, open(path, "w"), indent=1)
        ck.violations.append({"key": key, "count": 1, "replay": path, "native_outcome": "go build failed", "native_detail": r.stderr[-300:],
                              "assignment": {}, "msg": r.stderr[-300:]})
    if ok:
        res = run_symgo(m.dir, [], "main", "^Harness_C02_", steps=5000000, env=env, maxpaths=2000000, use_modfile=False, timeout=300)
        ck.add_run(res)
        ck.handle_violations(res, NativeReplayer(m.dir, "main", [], use_modfile=False), env=env, timeout=60)
    ck.programs = len(m.programs)
    ck.extra["signature_pins_typecheck"] = bool(ok)
    # L1 part in fc: annotation erasure + unifier kernel
    res = run_symgo(mod, hp, "main", "^Harness_C02_", steps=5000000, env=env, maxpaths=2000000,
                    timeout=300 if tier == "quick" else 1500)
    ck.add_run(res)
    ck.handle_violations(res, NativeReplayer(mod, "main", hp), env=env, timeout=60)
    return ck.finish()
