"""L2 layer: validation of emitted Go (DESIGN.md section 3).

build(): native fc (or tinyfo) from the current tree -> transpile a corpus ->
scratch module with the emitted files, the hand-written references/harnesses
and the harness API -> go/types (native go build) decides 'compiles' per file
-> the module is then executed symbolically by symgo.
"""
from common import *
import glob

GOMOD = '''module l2corpus

go 1.23

require (
	github.com/karino2/folang/pkg/buf v0.0.0-00010101000000-000000000000
	github.com/karino2/folang/pkg/dict v0.0.0-00010101000000-000000000000
	github.com/karino2/folang/pkg/frt v0.0.0-00010101000000-000000000000
	github.com/karino2/folang/pkg/slice v0.0.0-00010101000000-000000000000
	github.com/karino2/folang/pkg/strings v0.0.0-00010101000000-000000000000
	github.com/karino2/folang/pkg/sys v0.0.0-00010101000000-000000000000
)

require (
	github.com/google/go-cmp v0.6.0 // indirect
	golang.org/x/exp v0.0.0-20250128182459-e0ece0dbea4c // indirect
)

replace github.com/karino2/folang/pkg/frt => %(repo)s/pkg/frt
replace github.com/karino2/folang/pkg/buf => %(repo)s/pkg/buf
replace github.com/karino2/folang/pkg/slice => %(repo)s/pkg/slice
replace github.com/karino2/folang/pkg/strings => %(repo)s/pkg/strings
replace github.com/karino2/folang/pkg/sys => %(repo)s/pkg/sys
replace github.com/karino2/folang/pkg/dict => %(repo)s/pkg/dict
'''


def build_tool(name):
    """Native build of fc / tinyfo from the current working tree."""
    out = os.path.join(scratch(), name + "_native")
    if os.path.exists(out):
        return out
    mod = os.path.join(REPO, name)
    r = subprocess.run(["go", "build", "-modfile", modfile_copy(mod), "-o", out, "."], cwd=mod, env=GOENV,
                       capture_output=True, text=True)
    if r.returncode != 0:
        print("native build of %s failed:\n%s%s" % (name, r.stdout, r.stderr), file=sys.stderr)
        sys.exit(2)
    return out


class L2Module:
    def __init__(self, name):
        self.dir = tempfile.mkdtemp(prefix="l2_" + name + "_", dir=scratch())
        self.rejected = {}      # fo file -> diagnostic
        self.not_compiling = {} # fo file -> go error text
        self.programs = []      # fo files that made it into the module
        open(os.path.join(self.dir, "go.mod"), "w").write(GOMOD % {"repo": REPO})
        shutil.copy(os.path.join(REPO, "samples/go.sum"), os.path.join(self.dir, "go.sum"))

    def add_api(self):
        for f in sorted(os.listdir(API_DIR)):
            if f.endswith(".go"):
                src = open(os.path.join(API_DIR, f)).read().replace("package VERIFPKG", "package main", 1)
                open(os.path.join(self.dir, "zz_" + f), "w").write(src)

    def transpile(self, tool, foi, fo_files, gen_prefix="gen_"):
        """Runs the transpiler on all files in one invocation; a rejected file is dropped and the run repeated."""
        files = list(fo_files)
        for f in files:
            shutil.copy(f, self.dir)
        while files:
            for g in glob.glob(os.path.join(self.dir, "gen_*.go")):
                os.remove(g)
            args = [tool] + ([foi] if foi else []) + [os.path.basename(f) for f in files]
            r = subprocess.run(args, cwd=self.dir, capture_output=True, text=True, timeout=120)
            if r.returncode == 0:
                break
            bad = None
            for line in (r.stdout + r.stderr).splitlines():
                m = re.match(r"(\S+\.fo): (.*)", line)
                if m:
                    bad = (m.group(1), m.group(2))
            if not bad:
                # a crash: attribute it to the last file announced
                ann = re.findall(r"transpile: (\S+\.fo)", r.stdout)
                bad = (ann[-1] if ann else os.path.basename(files[-1]), (r.stderr or r.stdout)[-300:])
            self.rejected[bad[0]] = bad[1]
            files = [f for f in files if os.path.basename(f) != bad[0]]
        self.programs = [os.path.basename(f) for f in files]
        return self.programs

    def add_go(self, paths):
        for p in paths:
            shutil.copy(p, self.dir)

    def typecheck(self, ref_of):
        """go build decides 'compiles'; a failing gen file is removed together with its reference file."""
        for _ in range(20):
            r = subprocess.run(["go", "build", "-o", os.devnull, "."], cwd=self.dir, env=GOENV, capture_output=True, text=True)
            if r.returncode == 0:
                return True
            errs = re.findall(r"^\./(gen_[\w.]+\.go):(\d+):\d+: (.*)$", r.stderr, re.M)
            if not errs:
                print("scratch module does not build:\n" + r.stderr[-3000:], file=sys.stderr)
                return False
            g = errs[0][0]
            fo = g[len("gen_"):-3] + ".fo"
            self.not_compiling[fo] = "; ".join("%s:%s %s" % e for e in errs if e[0] == g)[:600]
            os.remove(os.path.join(self.dir, g))
            for rf in ref_of(fo):
                if os.path.exists(os.path.join(self.dir, rf)):
                    os.remove(os.path.join(self.dir, rf))
            self.programs = [p for p in self.programs if p != fo]
        return False
