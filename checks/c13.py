from common import *
from c12 import replay_one


def run(tier, replay=None):
    ck = Check("C13", tier, "model_checking")
    mod = os.path.join(REPO, "pkg/slice")
    hp = [os.path.join(VERIF, "harness/slice"), API_DIR]
    L = 3 if tier == "quick" else 4
    env = {"VERIF_L": str(L)}
    ck.bounds = {"max_slice_length": L, "element_types": "int (BitVec 64); string of one symbolic byte for Sort/Distinct/Zip",
                 "instruction_budget_per_path": 2000000}
    ck.assumptions = ["documented domains: 0<=i<len for Item, non-empty for Head/Tail/Last/PopLast, 0<=n<=len for Take/Skip",
                      "function arguments from the families x*3+c, x-2i+c, x<c, x&7, acc*3-x with symbolic c",
                      "slices.SortFunc / cmp.Compare interpreted from the real std source; only 'ascending permutation' is claimed, not stability"]
    rp = NativeReplayer(mod, "slice", hp)
    if replay:
        return replay_one(ck, rp, replay, env)
    res = run_symgo(mod, hp, "slice", "^Harness_C13_", steps=2000000, env=env, maxpaths=400000,
                    timeout=200 if tier == "quick" else 1500)
    ck.add_run(res)
    ck.handle_violations(res, rp, env=env)
    cross_solver(ck, mod, hp, "slice", "^Harness_C13_(Sort|Filter|Scans|Fold)$", env=env)
    engine_selftest(ck)
    return ck.finish()
