from common import *
from c12 import replay_one


def run(tier, replay=None):
    ck = Check("C13", tier, "model_checking")
    mod = os.path.join(REPO, "pkg/slice")
    hp = [os.path.join(VERIF, "harness/slice"), API_DIR]
    L = 3 if tier == "quick" else 6
    env = {"VERIF_L": str(L)}
    ck.bounds = {"max_slice_length": L, "element_types": "int (BitVec 64); string of one symbolic byte for Sort/Distinct/Zip",
                 "instruction_budget_per_path": 2000000}
    ck.assumptions = ["documented domains: 0<=i<len for Item, non-empty for Head/Tail/Last/PopLast, 0<=n<=len for Take/Skip",
                      "function arguments from the families x*3+c, x-2i+c, x<c, x&7, acc*3-x with symbolic c",
                      "slices.SortFunc / cmp.Compare interpreted from the real std source; only 'ascending permutation' is claimed, not stability"]
    rp = NativeReplayer(mod, "slice", hp)
    if replay:
        return replay_one(ck, rp, replay, env)
    res = run_symgo(mod, hp, "slice", "^Harness_C13_", steps=2000000, env=env, maxpaths=400000,
                    timeout=200 if tier == "quick" else 1500)
    ck.add_run(res)
    ck.handle_violations(res, rp, env=env)
    if tier != "quick":
        # the harnesses that do not go through the std sort scale further
        env8 = {"VERIF_L": "8"}
        ck.bounds["max_slice_length_non_sort_functions"] = 8
        res = run_symgo(mod, hp, "slice", "^Harness_C13_(LengthEmpty|Item|Ends|EndsEmpty|Push|TakeSkip|Map|Filter|Zip|ZipMismatch|Scans|Fold|AppendConcatCollect|CollectSharedChunks|Distinct|DistinctStrings)$",
                        steps=2000000, env=env8, maxpaths=400000, timeout=900)
        ck.add_run(res)
        ck.handle_violations(res, rp, env=env8)
    cross_solver(ck, mod, hp, "slice", "^Harness_C13_(Sort|Filter|Scans|Fold)$", env={"VERIF_L": "3"})
    engine_selftest(ck)
    return ck.finish()
