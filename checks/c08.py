from common import *
from c12 import replay_one


def run(tier, replay=None):
    ck = Check("C08", tier, "model_checking")
    mod = os.path.join(REPO, "fc")
    hp = [os.path.join(VERIF, "harness/fc"), API_DIR]
    env = {"VERIF_FORMS2": "1", "VERIF_CHAIN4": "1" if tier == "thorough" else "0",
           "VERIF_RANKCHAIN": "5" if tier == "quick" else "7"}
    ck.bounds = {"chain_operators": 3 if tier == "quick" else 4, "spellings": 12,
                 "operand_forms": "atom, application, not, parenthesised (chains of <= 2 operators); optional line break before an operator",
                 "symbolic_rank_chain": int(env["VERIF_RANKCHAIN"]), "symbolic_ranks": "4 operators x ranks 1..6"}
    ck.assumptions = ["operator bytes are symbolic and constrained to the 12 non-pipe spellings; the whole pipeline (tokenizer, parser, inference, emitter) runs on each chain",
                      "chains use unannotated parameters, so every spelling sequence is accepted by inference",
                      "reference: precedence climbing over the published table written in the harness"]
    rp = NativeReplayer(mod, "main", hp)
    if replay:
        return replay_one(ck, rp, replay, env)
    res = run_symgo(mod, hp, "main", "^Harness_C08_", steps=5000000, env=env, maxpaths=2000000,
                    timeout=600 if tier == "quick" else 3000)
    ck.add_run(res)
    ck.handle_violations(res, rp, env=env, timeout=60)
    return ck.finish()
