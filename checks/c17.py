from common import *
from l2 import *


def ref_of(fo):
    return [fo[:-3] + "_ref.go"]


def run(tier, replay=None):
    ck = Check("C17", tier, "translation_validation")
    corpus = os.path.join(VERIF, "corpus/c17")
    env = {}
    ck.bounds = {"corpus": "corpus/c17 (tinyfo profile: annotated functions, arithmetic/comparison, &&/||, if/elif/else, non-generic records and unions with match, slices, pairs, destructuring, pipes, partial application, package_info calls)",
                 "three_way": "the same references are linked once with tinyfo's Go and once with fc's Go: tinyfo == ref == fc",
                 "inputs": "ints: BitVec 64; strings <= 1 byte; slices <= 2 elements; union case by choice"}
    ck.assumptions = ["tinyfo is given the reduced corpus/c17/mini.foi (it rejects today's pkg/pkg_all.foi)",
                      "programs beyond the corpus and tinyfo's diagnostics are outside the claim"]
    fos = sorted(glob.glob(os.path.join(corpus, "*.fo")))
    mods = {}
    for tool in ("tinyfo", "fc"):
        m = L2Module("c17_" + tool)
        m.transpile(build_tool(tool), os.path.join(corpus, "mini.foi"), fos)
        m.add_api()
        m.add_go([os.path.join(corpus, "common.go")] + [os.path.join(corpus, ref_of(p)[0]) for p in m.programs])
        ok = m.typecheck(ref_of)
        mods[tool] = (m, ok)
    if replay:
        j = json.load(open(replay))
        tool = j.get("tool", "tinyfo")
        from c12 import replay_one
        return replay_one(ck, NativeReplayer(mods[tool][0].dir, "main", [], use_modfile=False), replay, env)
    for tool, (m, ok) in mods.items():
        for kind, table in (("rejected", m.rejected), ("does-not-compile", m.not_compiling)):
            for fo, msg in sorted(table.items()):
                key = "C17:%s:%s:%s" % (tool, fo, kind)
                path = os.path.join(ck.replay_dir(), "%s.%s.%s.json" % (tool, fo, kind))
                json.dump({"property": "C17", "kind": kind, "tool": tool, "program": fo, "detail": msg}, open(path, "w"), indent=1)
                rec = {"key": key, "count": 1, "replay": path, "native_outcome": kind, "native_detail": msg[:300], "assignment": {}, "msg": msg[:200]}
                kf = known_match("C17", key)
                (ck.known if kf else ck.violations).append(dict(rec, finding=(kf or {}).get("what", "")))
        if ok:
            res = run_symgo(m.dir, [], "main", "^Harness_C17_", steps=5000000, env=env, maxpaths=2000000, use_modfile=False, timeout=300)
            for h in res.get("harnesses") or []:
                h["harness"] = h["harness"] + "[" + tool + "]"
                for v in h.get("violations") or []:
                    v["msg"] = "[" + tool + "] " + v["msg"]
            ck.add_run(res)
            # replay files must remember which module they belong to
            rp = NativeReplayer(m.dir, "main", [], use_modfile=False)
            before = len(ck.violations) + len(ck.known)
            for h in res.get("harnesses") or []:
                for v in h.get("violations") or []:
                    v["harness"] = v["harness"]
            ck.handle_violations(res, rp, env=env, timeout=60)
    ck.programs = sum(len(m.programs) for m, _ in mods.values())
    return ck.finish()
