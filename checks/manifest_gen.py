"""Regenerates MANIFEST.json from the table below (run after adding a check)."""
import json, os
VERIF = os.path.dirname(os.path.dirname(os.path.abspath(__file__)))
props = [json.loads(l) for l in open(os.path.join(VERIF, "properties.jsonl"))]

NOTE = ("Trusted: go/packages+go/ssa v0.29.0, the symgo interpreter (fork of x/tools interp), z3 4.8.12, the std/go-cmp "
        "contract models of the engine and the reference oracles in the harnesses; every solver counterexample is replayed "
        "natively (go test -overlay / the real binary) before it is reported, so the models can cause misses, not alarms.")

claimed = {
 "C01": dict(level="translation_validation", design="4 C01", tech="translation validation: emitted Go vs. hand-written reference Go, both executed symbolically from go/ssa with symbolic runtime inputs + SMT (z3)",
   text="fc is built from the current tree and run on a hand-kept corpus (let/closures, partial application, pipes, if/elif/else, &&/||, union and string match, records, tuples, slices, destructuring, interpolation, blocks as values, top-level variables); go build decides that the emitted Go compiles; then emitted functions and references written against strict left-to-right call-by-value semantics run symbolically on the same symbolic inputs and z3 discharges equal results and equal effect traces for all input values. Plus the generated family G01: 24 (quick) / 160 (thorough) random let-normal-form programs printed once as Folang and once as reference Go. Bound: the corpus and the generated programs; slices <= 3/4 elements."),
 "C02": dict(level="translation_validation", design="4 C02", tech="SSA symbolic execution of the real unifier against a reference mgu (symbolic variable names) + go/types signature pins + annotation-erasure runs of the whole compiler + SMT (z3)",
   text="Four parts. (1) The real unifyType/updateResolver/resolveType run on generated type pairs (depth 1 x 1, three type variables whose names are symbolic bytes) against an independent Robinson unifier: same resolved type on both sides, equal to the mgu up to renaming, symmetric; relation chains in every order. (2) InferLfd hoists leftover variables to T0,T1,... by first occurrence (parameters, then result). (3) 19 functions from the documentation's inference promises are transpiled by the freshly built fc and pinned by Go assignments that type-check iff type-parameter count/order and every parameter/result type are the principal ones (go build decides). (4) 9 functions x every subset of their redundant annotations erased emit the same Go."),
 "C03": dict(level="translation_validation", design="4 C03", tech="translation validation: hand-written Go client / generated foreign-call family against emitted Go, executed symbolically + SMT (z3); go/types decides 'client compiles'",
   text="A declaration corpus (records, generic records, unions with/without payload, generic unions, top-level funcs/vars, tuples) is transpiled by the freshly built fc and linked with a hand-written Go client that uses only the documented names; go build decides that the client compiles, symgo that it computes what the documentation implies. A generated family of 58 foreign-call forms (arity 1..4 x arguments at the binding x direct/partial/piped, package _ and named package, explicit type arguments) is compared with an asymmetric reference for all argument values."),
 "C05": dict(level="model_checking", design="4 C05", tech="SSA symbolic execution of the real main() under a map-iteration-order oracle (nondeterministic choice per range-over-map), cross-path output comparison",
   text="The real main/transpileFiles run from go/ssa on a template set with every map iteration order turned into a choice of the engine (all permutations for <= 3 entries, insertion/reverse/rotate above) inside a window of 4 (quick) / 5 (thorough) consecutive iteration events that slides over all events of the run, plus two global strategies; all explored paths must agree on exit status and output files. Site lemmas run the consumers of dict.Keys/Values/KVs (record-literal lookup, equivalence-set union and registration, exhaustiveness) on dictionaries with symbolic keys under all six orders inside one path. A difference is confirmed against the real binary (repeated runs, then a dict shim with sorted/reversed/rotated enumeration) before it is reported."),
 "C06": dict(level="model_checking", design="4 C06", tech="SSA symbolic execution: byte-level scanner/column lemma + whole-parser runs with every line's indentation a symbolic integer + SMT (z3)",
   text="Two lemmas. (A) For every buffer of <= 4 (quick) / 6 (thorough) symbolic bytes the real scanners and tkzNext/newTkz/tkzNextNOL treat blanks, tabs and comments as transparent, a token is a function of the bytes from its begin on, and col is the true column. (B) The real parser+emitter run on templates in line-start normal form with the column of every token = canonical offset + a symbolic indentation per line, constrained only by the indentation tree (unbounded amounts); optional line breaks, blank lines and comments are choices; z3 shows every offside comparison one-sided and the emitted Go equal to the canonical layout's on every feasible path; a converse template checks that a dedented line ends its block; a structured byte-level lemma covers comments in context."),
 "C07": dict(level="model_checking", design="4 C07", tech="SSA symbolic execution of the real main() twice per path (minimal package vs. variant context) with symbolic identifiers + SMT (z3)",
   text="For three target definitions the real main() runs on the minimal package and on a variant with unrelated definitions (function and record names are 3 symbolic bytes each) present or not at several places, independent dependencies reordered, and the sequence cut into up to 2 (quick) / 3 (thorough) files plus a .foi file; z3 discharges equality of the target's Go text (temporaries renumbered) and the gen_X.go-per-X.fo file discipline on every path. A long-history harness puts 45 unrelated type groups and functions before / between / in an earlier file."),
 "C08": dict(level="model_checking", design="4 C08", tech="SSA symbolic execution of tokenizer+parser+inference+emitter over symbolic operator bytes and symbolic precedences + SMT (z3)",
   text="Chains of up to 3 (quick) / 4 (thorough) binary operators whose spellings are symbolic bytes constrained to the 12 non-pipe operators run through the whole real pipeline; z3 prunes/decides every spelling path and the emitted return expression must equal a reference precedence-climbing fold over the published table (operand forms: atom, application, not, parentheses; optional line breaks). A second level writes symbolic ranks 1..6 into the real binOpMap and checks the grouping against the reference fold for every rank table at once."),
 "C09": dict(level="model_checking", design="4 C09", tech="SSA symbolic execution of the real main() over a virtual file system; arm names with symbolic digit bytes + SMT (z3)",
   text="Programs assembled from choices (1..3 cases quick / 4 thorough, every arm subset/order/duplication, default yes/no, bind/_/none forms, three contexts, nested generic case) run through the real main(); accept <=> default or cover is asserted as a formula over the symbolic arm-name bytes, together with exit status, diagnostic (names the file and a really uncovered case), no output on reject, and the never-reached fallback exactly when there is no default. A second harness runs two matches on one union per program (two functions, nested, nested before an outer default arm, two files) with every pair of arm subsets."),
 "C15": dict(level="model_checking", design="4 C15", tech="SSA symbolic execution of the whole compiler on generated type expressions; symbolic identifier bytes + SMT (z3)",
   text="Type expression trees generated from choices (all trees of depth 1 + nesting spines of depth 2 quick; depth 2 + spines of depth 3 thorough) are printed as Folang and as the reference Go type, placed in each of the 5 syntactic positions and compiled by the real pipeline; one family has an identifier of 3..6 symbolic lower-case bytes so that base-type mapping, pass-through and rejection of unknown names are decided by z3 for all identifiers."),
 "C10": dict(level="model_checking", design="4 C10", tech="SSA symbolic execution + SMT (z3); cmp.Equal contract model, native go-cmp replay",
   text="Bounded symbolic execution of the real frt.OpEqual/OpNotEqual on the Go representations of first-order Folang values (ints, strings, bools, tuples, records with upper/lower-case fields, unions, slices from four producers, nestings to depth 2) with symbolic leaves; z3 discharges no-panic, agreement with a per-type structural-equality reference, negation, symmetry, reflexivity; an end-to-end part runs Folang programs through the freshly built fc with operands from the real slice library. Bound: slice lengths 0..2."),
 "C11": dict(level="model_checking", design="4 C11", tech="SSA symbolic execution of scanner+emitter over symbolic literal bytes + SMT (z3)",
   text="For each of the four literal forms the body is N symbolic bytes (N=4 quick / 6 thorough) from the property's domain; the real scanner and emission path (scanTokenAt, ExprToGo, ParseSInterP, sinterpToGo) run symbolically, and z3 discharges 'Go-unquote(emitted) [+ real frt.SInterP on symbolic hole values] == denote(body)' on every path; an end-to-end part runs literal programs (multi-byte UTF-8, multi-line) through the freshly built fc."),
 "C12": dict(level="model_checking", design="4 C12", tech="SSA symbolic execution + SMT (z3), inductive step over aliased windows",
   text="Bounded symbolic execution of every exported pkg/slice function from go/ssa: one inductive step from an arbitrary aliased pre-state (symbolic backing array, every window offset/len/cap); z3 discharges 'no element of a pre-existing array changed' for all element values; two-step histories as cross-check. Bound: array of 4 (quick) / 5 (thorough) elements."),
 "C13": dict(level="model_checking", design="4 C13", tech="SSA symbolic execution + SMT (z3) against list-model postconditions",
   text="Bounded symbolic execution of every pkg/slice function against postconditions / a list model for all element values, indices and counts; lengths 0..3 (quick) / 0..4 (thorough); z3 discharges each postcondition per path."),
 "C14": dict(level="model_checking", design="4 C14", tech="SSA symbolic execution + SMT (z3) against model map / direct string specs",
   text="Bounded symbolic execution of pkg/dict (operation sequences vs. a parallel-slices model, symbolic keys/values), pkg/strings (each wrapper vs. a direct specification, strings <= 3/4 symbolic bytes), pkg/buf and the frt helpers (Pipe, thunk conditionals, tuples, Sprintf/SInterP on every basic kind); z3 discharges each postcondition."),
 "C16": dict(level="model_checking", design="4 C16", tech="SSA symbolic execution with instruction budget as unwinding assertion + SMT (z3); native timeout replay",
   text="Scanner totality at byte level: every scanner/tokenizer entry on every buffer of <= N symbolic bytes (N=5 quick / 7 thorough) and offset returns or panics inside the instruction budget, tokens lie inside the buffer and nextToken makes progress; a budget-exhausting path is replayed natively under a timeout and reported only if the real code hangs. Two further groups run the real main() over a virtual file system: driver discipline (0..2 arguments x 7 file kinds x unwritable destination) and damaged programs (truncation at every offset, token deletion/duplication/swap, indentation damage, bodies built from names in scope, 1 (quick) / 2 (thorough) arbitrary symbolic bytes at four places of a program)."),
 "C17": dict(level="translation_validation", design="4 C17", tech="three-way translation validation: tinyfo's Go == reference == fc's Go, executed symbolically + SMT (z3)",
   text="A tinyfo-profile corpus (annotated functions, arithmetic/comparison, &&/||, if/elif/else, records, unions with match, slices, pairs, destructuring, pipes, partial application, package_info calls) is transpiled by the freshly built tinyfo and by fc; each output is linked with the same hand-written references and executed symbolically on symbolic inputs; z3 discharges equal results and equal effect traces for both, hence tinyfo == fc on the corpus."),
 "C18": dict(level="model_checking", design="4 C18", tech="SSA symbolic execution of the real main() over a virtual file system + SMT (z3)",
   text="The real main/processListFile/convOne of cmd/build_sample_md run symbolically over a virtual file system: list file = N symbolic bytes (5 quick / 7 thorough), every listed file has symbolic content and a symbolic readable flag; z3 discharges byte equality of the written README.md with an independent reference rendering, exactly one write, and failure without output when a file is unreadable."),
}
order = ["C10", "C11", "C12", "C13", "C14", "C16", "C18"]
PENDING = "check under construction in this session (DESIGN.md section 4 has the plan); not claimed until it runs clean on the unchanged tree"

def main():
    checks = []
    for pid in sorted(claimed):
        c = claimed[pid]
        checks.append({"property_id": pid, "quick_cmd": "./check %s --tier quick" % pid,
                       "thorough_cmd": "./check %s --tier thorough" % pid,
                       "evidence_file": "/verif/evidence/%s.json" % pid,
                       "replay_cmd_template": "./check %s --replay {path}" % pid, "engine": "symgo",
                       "level_claimed": {"category": c["level"], "text": c["text"], "design_ref": c["design"]},
                       "level_note": NOTE, "technique": c["tech"]})
    na = []
    for p in props:
        if p["id"] in claimed:
            continue
        if p["id"] == "C04":
            na.append({"property_id": "C04", "reason": "one concrete computation (rebuild, regenerate, byte-compare) with no quantified variable for a solver to range over; see DESIGN.md section 5"})
        else:
            na.append({"property_id": p["id"], "reason": PENDING})
    m = {"version": 1,
         "setup_cmd": "cd /verif/engine && GOFLAGS=-mod=mod GOPROXY=off GOSUMDB=off GOTOOLCHAIN=local go build -o /verif/bin/symgo .",
         "hooks": {"guard": "verif",
                   "enable": "no source hooks: harness files are injected with go/packages Overlay (engine) and go test -overlay (native replay) as /repo/<module>/zz_verif_*.go; nothing is written into /repo",
                   "baseline_off_cmd": "for m in cmd/build_sample_md fc pkg/buf pkg/dict pkg/frt pkg/slice pkg/strings pkg/sys tinyfo; do (cd /repo/$m && go test -mod=mod -vet=off -count=1 ./...) || exit 1; done",
                   "source_commits": [], "add_only": True},
         "engines": [{"name": "symgo", "path": "/verif/engine", "serves_properties": sorted(claimed),
                      "kind_free_text": "symbolic executor for go/ssa (fork of golang.org/x/tools/go/ssa/interp v0.29.0) with bit-vector/Bool terms, decision-prefix forking and a z3 -in link; regenerates the SSA from /repo's working tree on every run"}],
         "checks": checks, "not_applicable": na,
         "notes": "Solver-based checking of the real code; see DESIGN.md. Fixes of genuine defects are 'fix:' commits in /repo, listed in known_findings.json."}
    json.dump(m, open(os.path.join(VERIF, "MANIFEST.json"), "w"), indent=1)

if __name__ == "__main__":
    main()
