"""Shared driver code for the per-property checks (see DESIGN.md section 8).

A check = one or more symgo runs (symbolic execution of the real code from the
current working tree of /repo) + native replay of every counterexample +
known-findings filter + evidence file.
"""
import json, os, re, shutil, subprocess, sys, tempfile, time, atexit, hashlib

VERIF = os.path.dirname(os.path.dirname(os.path.abspath(__file__)))
REPO = os.environ.get("VERIF_REPO", "/repo")
SYMGO = os.path.join(VERIF, "bin", "symgo")
GOENV = dict(os.environ, GOFLAGS="-mod=mod", GOPROXY="off", GOSUMDB="off", GOTOOLCHAIN="local")

_scratch = None


def scratch():
    global _scratch
    if _scratch is None:
        _scratch = tempfile.mkdtemp(prefix="verif-scratch-")
        atexit.register(lambda: shutil.rmtree(_scratch, ignore_errors=True))
    return _scratch


def ensure_engine():
    """(Re)build symgo if the binary is missing or older than its sources."""
    src = os.path.join(VERIF, "engine")
    newest = 0
    for root, _, files in os.walk(src):
        for f in files:
            newest = max(newest, os.path.getmtime(os.path.join(root, f)))
    if os.path.exists(SYMGO) and os.path.getmtime(SYMGO) >= newest:
        return
    os.makedirs(os.path.dirname(SYMGO), exist_ok=True)
    r = subprocess.run(["go", "build", "-o", SYMGO, "."], cwd=src, env=GOENV, capture_output=True, text=True)
    if r.returncode != 0:
        print("symgo build failed:\n" + r.stdout + r.stderr, file=sys.stderr)
        sys.exit(2)


def modfile_copy(module_dir):
    """Scratch copy of go.mod/go.sum so that -mod=mod never rewrites the repository's."""
    d = os.path.join(scratch(), "mod_" + hashlib.sha1(module_dir.encode()).hexdigest()[:8])
    os.makedirs(d, exist_ok=True)
    shutil.copy(os.path.join(module_dir, "go.mod"), os.path.join(d, "go.mod"))
    if os.path.exists(os.path.join(module_dir, "go.sum")):
        shutil.copy(os.path.join(module_dir, "go.sum"), os.path.join(d, "go.sum"))
    return os.path.join(d, "go.mod")


def run_symgo(module_dir, harness_paths, pkgname, run_re, steps=None, depth=None, maxpaths=None,
              oracle=None, timeout=None, samples=5, env=None, extra=None, use_modfile=True, workers=None,
              stop_on_violation=False, maporder_events=None):
    ensure_engine()
    out = os.path.join(scratch(), "symgo_%d.json" % int(time.time() * 1e6))
    cmd = [SYMGO, "run", "-dir", module_dir, "-harness", ",".join(harness_paths), "-pkgname", pkgname,
           "-run", run_re, "-out", out, "-samples", str(samples)]
    if use_modfile:
        cmd += ["-modfile", modfile_copy(module_dir)]
    if steps:
        cmd += ["-steps", str(steps)]
    if depth:
        cmd += ["-depth", str(depth)]
    if maxpaths:
        cmd += ["-maxpaths", str(maxpaths)]
    if oracle:
        cmd += ["-oracle", oracle]
    if maporder_events:
        cmd += ["-maporder-events", str(maporder_events)]
    if timeout:
        cmd += ["-timeout", str(timeout)]
    if workers:
        cmd += ["-workers", str(workers)]
    if stop_on_violation:
        cmd += ["-stop-on-violation"]
    if extra:
        cmd += extra
    e = dict(GOENV)
    if env:
        e.update(env)
    r = subprocess.run(cmd, env=e, capture_output=True, text=True)
    if r.returncode == 2 and "no harness matches" in r.stderr:
        return {"harnesses": [], "_exit": 0, "_stderr": r.stderr, "load_s": 0, "target_packages": []}
    if r.returncode not in (0, 1, 3):
        print("symgo failed (exit %d):\n%s%s" % (r.returncode, r.stdout[-3000:], r.stderr[-3000:]), file=sys.stderr)
        sys.exit(2)
    res = json.load(open(out))
    os.remove(out)
    res["_exit"] = r.returncode
    res["_stderr"] = r.stderr[-2000:]
    return res


# ---------------------------------------------------------------- native replay

API_DIR = os.path.join(VERIF, "harness", "api")

REPLAY_TEST = '''package %(pkg)s

import (
	"fmt"
	"os"
	"testing"
)

var verifHarnesses = map[string]func(){
%(entries)s}

func TestVerifReplay(t *testing.T) {
	name := os.Getenv("VERIF_HARNESS")
	f := verifHarnesses[name]
	if f == nil {
		t.Fatalf("VERIF-NOHARNESS %%s", name)
	}
	defer verifCleanup()
	defer func() {
		if r := recover(); r != nil {
			if _, ok := r.(verifAssumeFailed); ok {
				fmt.Println("VERIF-ASSUME-FAILED")
				return
			}
			fmt.Printf("VERIF-PANIC: %%v\\n", r)
			t.Fail()
		}
	}()
	f()
	fmt.Println("VERIF-OK")
}
'''


class NativeReplayer:
    """Builds one native test binary for a package + harness files and replays assignments."""

    def __init__(self, module_dir, pkgname, harness_paths, whole_program=False, use_modfile=True):
        self.whole_program = whole_program
        self.use_modfile = use_modfile
        self.module_dir, self.pkgname = module_dir, pkgname
        self.dir = tempfile.mkdtemp(prefix="replay_", dir=scratch())
        self.bin = os.path.join(self.dir, "replay.test")
        self.built = False
        self.harness_paths = harness_paths
        self.build_log = ""

    def build(self):
        if self.built:
            return True
        files = []
        extra_names = []
        if not self.harness_paths:
            # harnesses already live in the (scratch) module directory
            for f in sorted(os.listdir(self.module_dir)):
                if f.endswith(".go") and not f.endswith("_test.go"):
                    extra_names += re.findall(r"^func (Harness_\w+)\(\)", open(os.path.join(self.module_dir, f)).read(), re.M)
        for h in self.harness_paths:
            if os.path.isdir(h):
                files += sorted(os.path.join(h, f) for f in os.listdir(h) if f.endswith(".go"))
            else:
                files.append(h)
        replace = {}
        names = []
        for f in files:
            src = open(f).read().replace("package VERIFPKG", "package " + self.pkgname, 1)
            names += re.findall(r"^func (Harness_\w+)\(\)", src, re.M)
            dst = os.path.join(self.dir, os.path.basename(f))
            open(dst, "w").write(src)
            replace[os.path.join(self.module_dir, "zz_verif_" + os.path.basename(f))] = dst
        names += extra_names
        test = REPLAY_TEST % {"pkg": self.pkgname, "entries": "".join('\t"%s": %s,\n' % (n, n) for n in names)}
        tdst = os.path.join(self.dir, "replay_test.go")
        open(tdst, "w").write(test)
        replace[os.path.join(self.module_dir, "zz_verif_replay_test.go")] = tdst
        ov = os.path.join(self.dir, "overlay.json")
        json.dump({"Replace": replace}, open(ov, "w"))
        cmd = ["go", "test", "-c", "-vet=off", "-overlay", ov, "-o", self.bin]
        if self.use_modfile:
            cmd += ["-modfile", modfile_copy(self.module_dir)]
        cmd += ["."]
        r = subprocess.run(cmd, cwd=self.module_dir, env=GOENV, capture_output=True, text=True)
        self.build_log = r.stdout + r.stderr
        self.built = r.returncode == 0 and os.path.exists(self.bin)
        return self.built

    def build_binary(self):
        """Native binary of the package under test (for whole-program harnesses: VERIF_BIN)."""
        out = os.path.join(self.dir, "target.bin")
        if os.path.exists(out):
            return out
        r = subprocess.run(["go", "build", "-modfile", modfile_copy(self.module_dir), "-o", out, "."],
                           cwd=self.module_dir, env=GOENV, capture_output=True, text=True)
        if r.returncode != 0:
            self.build_log += r.stdout + r.stderr
            return None
        return out

    def run(self, harness, replay_path, timeout=60, env=None, cwd=None):
        """Returns (outcome, detail): ok | assert | panic | assume | timeout | fatal | builderror"""
        if not self.build():
            return "builderror", self.build_log[-2000:]
        e = dict(os.environ, VERIF_HARNESS=harness, VERIF_REPLAY=replay_path)
        if self.whole_program:
            b = self.build_binary()
            if not b:
                return "builderror", self.build_log[-2000:]
            e["VERIF_BIN"] = b
        if env:
            e.update(env)
        try:
            r = subprocess.run([self.bin, "-test.run", "^TestVerifReplay$", "-test.timeout", "%ds" % (timeout + 30)],
                               env=e, capture_output=True, text=True, timeout=timeout, cwd=cwd or self.dir,
                               errors="replace")
        except subprocess.TimeoutExpired as ex:
            return "timeout", "no termination within %ds" % timeout
        out = r.stdout + r.stderr
        if "VERIF-ASSUME-FAILED" in out:
            return "assume", out[-500:]
        m = re.search(r"VERIF-PANIC: (VERIF-ASSERT-FAILED: .*)", out)
        if m:
            return "assert", m.group(1)
        m = re.search(r"VERIF-PANIC: (.*)", out)
        if m:
            return "panic", m.group(1)
        if "fatal error:" in out or "goroutine stack exceeds" in out:
            return "fatal", out[:800]
        if "VERIF-OK" in out and r.returncode == 0:
            return "ok", ""
        return "other", out[-800:]


# ---------------------------------------------------------------- findings / evidence

def load_known():
    p = os.path.join(VERIF, "known_findings.json")
    if not os.path.exists(p):
        return []
    return json.load(open(p)).get("findings", [])


def known_match(prop, key):
    for f in load_known():
        if f.get("property") == prop and f.get("status") == "known" and re.fullmatch(f["key"], key):
            return f
    return None


def vkey(v):
    msg = re.sub(r"\s+", " ", v["msg"])[:120]
    if v["kind"] == "bound":
        msg = re.sub(r" \d+ exceeded in .*", " exceeded", msg)
    return "%s:%s:%s" % (v["harness"], v["kind"], msg)


class Check:
    def __init__(self, prop, tier, level, seed=0):
        self.prop, self.tier, self.level, self.seed = prop, tier, level, seed
        self.t0 = time.time()
        self.runs = []          # symgo harness results
        self.violations = []    # confirmed, unlisted
        self.known = []         # confirmed, listed
        self.spurious = []      # not reproduced natively
        self.replayed_ok = 0    # sample paths whose native run agreed
        self.replays = 0
        self.assumptions = []
        self.bounds = {}
        self.extra = {}
        self.notes = []
        self.load_s = 0.0
        self.targets = set()
        self.programs = 0
        self.incomplete = []

    def add_run(self, res):
        self.load_s += res.get("load_s", 0)
        for t in res.get("target_packages") or []:
            self.targets.add(t)
        for h in res.get("harnesses") or []:
            self.runs.append(h)
            if not h.get("complete"):
                self.incomplete.append({"harness": h["harness"], "status": h["status"], "messages": h.get("messages"),
                                        "path_limit_hit": h.get("path_limit_hit"), "unknown": h.get("unknown")})

    def replay_dir(self):
        d = os.path.join(VERIF, "replays", self.prop)
        os.makedirs(d, exist_ok=True)
        return d

    def handle_violations(self, res, replayer, per_key=3, timeout=60, env=None, accept=None, samples_to_validate=2):
        """Replays the violations of a symgo result natively; classifies them."""
        groups = {}
        for h in res.get("harnesses") or []:
            for v in h.get("violations") or []:
                groups.setdefault(vkey(v), []).append(v)
        for key, vs in sorted(groups.items()):
            confirmed = None
            tried = []
            for n, v in enumerate(vs[:per_key]):
                path = os.path.join(self.replay_dir(), "%s-%s-%d.json" % (
                    v["harness"], hashlib.sha1(key.encode()).hexdigest()[:8], n))
                json.dump({"property": self.prop, "harness": v["harness"], "kind": v["kind"], "msg": v["msg"],
                           "assignment": v["assignment"], "choices": v.get("choices"), "stack": v.get("stack")},
                          open(path, "w"), indent=1)
                self.replays += 1
                outcome, detail = replayer.run(v["harness"], path, timeout=timeout, env=env)
                tried.append((outcome, detail[:300]))
                ok = outcome in ("assert", "panic", "timeout", "fatal")
                if accept is not None:
                    ok = accept(v, outcome, detail)
                if ok:
                    confirmed = (v, path, outcome, detail)
                    break
                else:
                    os.remove(path)
            if confirmed is None:
                self.spurious.append({"key": key, "count": len(vs), "native": tried})
                continue
            v, path, outcome, detail = confirmed
            rec = {"key": key, "count": len(vs), "replay": path, "native_outcome": outcome,
                   "native_detail": detail[:300], "assignment": v["assignment"], "msg": v["msg"]}
            kf = known_match(self.prop, key)
            if kf:
                rec["finding"] = kf.get("what", "")
                self.known.append(rec)
            else:
                self.violations.append(rec)
        # engine-vs-native agreement on a few passing paths
        n = 0
        for h in res.get("harnesses") or []:
            for s in (h.get("samples") or []):
                if n >= samples_to_validate or s.get("status") != "ok":
                    continue
                path = os.path.join(scratch(), "sample_%d.json" % int(time.time() * 1e6))
                json.dump({"assignment": s["assignment"]}, open(path, "w"))
                outcome, detail = replayer.run(h["harness"], path, timeout=timeout, env=env)
                n += 1
                if outcome in ("ok", "assume"):
                    self.replayed_ok += 1
                else:
                    self.notes.append("native run of a passing sample path disagreed: %s %s %s" % (h["harness"], outcome, detail[:200]))
                    self.extra.setdefault("engine_native_disagreements", []).append(
                        {"harness": h["harness"], "assignment": s["assignment"], "native": outcome, "detail": detail[:300]})

    def finish(self, extra_cov=None):
        paths = sum(h["paths"] for h in self.runs)
        ok_paths = sum(h["status"].get("ok", 0) for h in self.runs)
        decisions = sum(h["forks"] for h in self.runs)
        samples = []
        for h in self.runs:
            for s in sorted(h.get("samples") or [], key=lambda x: -x.get("decisions", 0))[:2]:
                samples.append({"harness": h["harness"], "assignment": s.get("assignment"), "notes": s.get("notes"),
                                "steps": s.get("steps"), "status": s.get("status")})
        for k in self.known[:5]:
            samples.append({"known_finding": k["key"], "assignment": k["assignment"], "replay": k["replay"]})
        if not samples:
            samples = [{"harness": h["harness"], "paths": h["paths"]} for h in self.runs[:3]] or [{"note": "no harness ran"}]
        funcs = sorted({f for h in self.runs for f in (h.get("funcs") or [])})
        target_funcs = [f for f in funcs if "karino2/folang" in f and ".Harness_" not in f and ".verif" not in f]
        cov = {
            "states": max(1, paths),
            "transitions": max(1, decisions + paths),
            "traces_validated_against_impl": self.replayed_ok + len(self.known) + len(self.violations),
            "samples": samples[:12],
            "evaluations": max(1, paths),
            "distinct_nontrivial": max(2, ok_paths) if paths > 1 else paths,
            "rule": "one evaluation = one symbolic path (a class of inputs sharing all branch outcomes) of a harness over the real code; distinct by decision prefix; non-trivial = reached the end of the harness (status ok)",
            "obligations": sum(h["obligations"] for h in self.runs),
            "discharged": sum(h["discharged"] for h in self.runs),
            "solver_queries": sum(h["queries"] for h in self.runs),
            "solver_sat": sum(h["sat"] for h in self.runs),
            "solver_unsat": sum(h["unsat"] for h in self.runs),
            "solver_unknown": sum(h["unknown"] for h in self.runs),
            "solver_s": round(sum(h["solver_s"] for h in self.runs), 3),
            "instructions": sum(h["steps"] for h in self.runs),
            "paths_by_status": {k: sum(h["status"].get(k, 0) for h in self.runs) for k in
                                sorted({k for h in self.runs for k in h["status"]})},
            "harnesses": [{"name": h["harness"], "paths": h["paths"], "status": h["status"],
                           "obligations": h["obligations"], "discharged": h["discharged"],
                           "covers": h.get("covers"), "complete": h.get("complete"), "wall_s": round(h["wall_s"], 2)}
                          for h in self.runs],
            "functions_encoded": target_funcs[:400],
            "functions_encoded_count": len(target_funcs),
            "non_target_functions_interpreted": [f for f in funcs if "karino2/folang" not in f][:100],
            "bounds": self.bounds,
            "complete_within_bounds": not self.incomplete,
            "incomplete": self.incomplete[:20],
            "exhaustive": False,
            "native_replays": self.replays,
            "known_findings_reobserved": [k["key"] for k in self.known],
            "spurious_candidates": self.spurious[:20],
            "violations_confirmed": [{"key": v["key"], "replay": v["replay"]} for v in self.violations],
            "load_s": round(self.load_s, 2),
            "target_packages": sorted(self.targets),
            "solver": "z3 4.8.12 (z3 -in, incremental push/pop)",
            "trusted_base": ["go/packages + go/ssa v0.29.0", "symgo interpreter (interp fork)", "z3 4.8.12",
                             "std/go-cmp contract models in engine/interp/ext.go", "reference oracles in the harnesses"],
            "notes": self.notes[:20],
        }
        if self.programs:
            cov["programs"] = self.programs
            cov["disagreements_checked"] = self.replays
        cov.update(self.extra)
        if extra_cov:
            cov.update(extra_cov)
        ev = {"property_id": self.prop, "tier": self.tier, "seed": self.seed, "level": self.level,
              "coverage": cov, "assumptions": self.assumptions, "wall_s": round(time.time() - self.t0, 2),
              "violations": len(self.violations)}
        os.makedirs(os.path.join(VERIF, "evidence"), exist_ok=True)
        tmp = os.path.join(VERIF, "evidence", self.prop + ".json.tmp")
        json.dump(ev, open(tmp, "w"), indent=1)
        os.replace(tmp, os.path.join(VERIF, "evidence", self.prop + ".json"))
        for k in self.known:
            print("KNOWN-FINDING: property=%s %s [%s] replay=%s" % (self.prop, k.get("finding") or k["key"], k["key"], k["replay"]))
        for s in self.spurious:
            print("note: solver candidate not reproduced natively (not reported): %s" % s["key"])
        for inc in self.incomplete:
            print("note: incomplete within bounds: %s" % json.dumps(inc)[:300])
        for v in self.violations:
            print("VIOLATION property=%s replay=%s   # %s" % (self.prop, v["replay"], v["key"]))
        print("%s %s: harnesses=%d paths=%d obligations=%d/%d queries=%d known=%d violations=%d wall=%.1fs" % (
            self.prop, self.tier, len(self.runs), paths, cov["discharged"], cov["obligations"], cov["solver_queries"],
            len(self.known), len(self.violations), time.time() - self.t0))
        return 1 if self.violations else 0


# ---------------------------------------------------------------- cross-solver diff

def _verdicts(cmd, text):
    try:
        r = subprocess.run(cmd, input=text, capture_output=True, text=True, timeout=600)
    except subprocess.TimeoutExpired:
        return None
    return [l.strip() for l in r.stdout.splitlines() if l.strip() in ("sat", "unsat", "unknown")]


def cross_solver(ck, module_dir, harness_paths, pkgname, run_re, env=None, use_modfile=True, steps=2000000):
    """Re-runs a small harness with SMT transcripts and re-submits them to z3 5.1.0 and cvc5;
    any disagreement on a sat/unsat verdict aborts the check (exit 2, no verdict)."""
    d = tempfile.mkdtemp(prefix="smtlog_", dir=scratch())
    run_symgo(module_dir, harness_paths, pkgname, run_re, steps=steps, env=env, use_modfile=use_modfile, workers=2,
              timeout=120, extra=["-smtlog", d], samples=0)
    total, files = 0, 0
    for f in sorted(os.listdir(d)):
        text = open(os.path.join(d, f)).read()
        if "(check-sat)" not in text:
            continue
        files += 1
        base = _verdicts(["z3", "-in", "-smt2"], text)
        znew = _verdicts(["z3-new", "-in", "-smt2"], text)
        c5text = "(set-logic QF_BV)\n" + "\n".join(l for l in text.splitlines() if not l.startswith("(set-option :timeout"))
        cvc = _verdicts(["cvc5", "--incremental", "--lang=smt2"], c5text)
        for name, other in (("z3-new 5.1.0", znew), ("cvc5", cvc)):
            if other is None or base is None or len(other) != len(base) or any(
                    a != b for a, b in zip(base, other) if "unknown" not in (a, b)):
                print("solver disagreement between z3 4.8.12 and %s on %s" % (name, f), file=sys.stderr)
                sys.exit(2)
        total += len(base)
    ck.extra["cross_solver"] = {"harnesses": run_re, "transcripts": files, "queries_compared": total,
                                "solvers": ["z3 4.8.12", "z3 5.1.0", "cvc5 1.0"], "agree": True}


def engine_selftest(ck):
    """Go-semantics regression harnesses: must pass inside symgo AND natively; anything else aborts (exit 2)."""
    mod = os.path.join(REPO, "pkg/buf")
    hp = [os.path.join(VERIF, "harness/selftest"), API_DIR]
    res = run_symgo(mod, hp, "buf", "^Harness_Self_", steps=1000000, timeout=120, samples=1)
    rp = NativeReplayer(mod, "buf", hp)
    bad = []
    for h in res.get("harnesses") or []:
        if h.get("violations") or not h.get("complete") or not h["status"].get("ok"):
            bad.append((h["harness"], h["status"], [v["msg"] for v in (h.get("violations") or [])][:3], h.get("messages")))
        empty = os.path.join(scratch(), "empty_replay.json")
        json.dump({"assignment": {}}, open(empty, "w"))
        outcome, detail = rp.run(h["harness"], empty, timeout=60)
        if outcome not in ("ok", "assume"):
            bad.append((h["harness"], "native", outcome, detail[:300]))
    if bad or not res.get("harnesses"):
        print("engine selftest failed: %s" % bad, file=sys.stderr)
        sys.exit(2)
    ck.extra["engine_selftest"] = {"harnesses": [h["harness"] for h in res["harnesses"]],
                                   "paths": sum(h["paths"] for h in res["harnesses"]), "passed_in_engine_and_natively": True}
