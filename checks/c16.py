from common import *
from c12 import replay_one


def accept(v, outcome, detail):
    if v["kind"] == "bound":
        # candidate non-termination: only a real hang / runtime fatal error counts
        return outcome in ("timeout", "fatal") or "VERIF-HANG" in detail or "VERIF-FATAL" in detail
    return outcome in ("assert", "panic", "timeout", "fatal")


def run(tier, replay=None):
    ck = Check("C16", tier, "model_checking")
    mod = os.path.join(REPO, "fc")
    hp = [os.path.join(VERIF, "harness/fc"), API_DIR]
    N = 5 if tier == "quick" else 7
    env = {"VERIF_N": str(N), "VERIF_SYMBYTES": "1" if tier == "quick" else "2", "VERIF_BODYNAMES": "4" if tier == "quick" else "6"}
    ck.bounds = {"scanner_buffer_bytes": N, "scanner_instruction_budget": 200000,
                 "driver": "0..2 arguments x 7 file kinds x unwritable destination",
                 "symbolic_bytes_in_program": "%s arbitrary symbolic byte(s) at 4 places of a valid program (function body, after an operator, field type, top level)" % ("1" if tier == "quick" else "2"),
                 "damage": "4 templates: truncation at every offset; deletion/duplication/swap of every token; indentation of every line set to 0..8; 256 (quick) / 864 (thorough) bodies built from names in scope",
                 "whole_program_budget": "2e7 instructions, call depth 30000"}
    ck.assumptions = ["a path that exhausts the instruction budget or the call depth is a candidate hang / stack exhaustion; it is reported only if the real binary does not terminate within 20 s or dies of a Go runtime fatal error",
                      "a Go panic exit (status 2 with the panic message) counts as 'non-zero exit after printing a diagnostic'",
                      "os.ReadFile/WriteFile/Exit/Args run against the engine's virtual file system with injected failures"]
    rp = NativeReplayer(mod, "main", hp, whole_program=True)
    if replay:
        return replay_one(ck, rp, replay, env)
    # group 1: scanner totality (byte level)
    res = run_symgo(mod, hp, "main", "^Harness_C16_(scan|nextToken|tkzNext|ParseSInterP|reinterpretEscape|PosToFilePosInfo|SpaceRuns)", steps=200000, env=env,
                    maxpaths=3000000, timeout=300 if tier == "quick" else 3000, extra=["-bound-is-violation"])
    ck.add_run(res)
    ck.handle_violations(res, rp, env=env, timeout=20, per_key=2, accept=accept)
    # group 2 + 3: driver discipline, damaged programs
    res = run_symgo(mod, hp, "main", "^Harness_C16_(Driver|Truncate|TokenDamage|Indent|Bodies|SymbolicBytes|CyclicTypes|CyclicUnification)$", steps=20000000, depth=30000, env=env,
                    maxpaths=3000000, timeout=600, extra=["-bound-is-violation"])
    ck.add_run(res)
    ck.handle_violations(res, rp, env=env, timeout=40, per_key=2, accept=accept)
    # bound paths that were replayed and terminated natively are not incompleteness of the claim
    return ck.finish()
