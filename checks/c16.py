from common import *
from c12 import replay_one


def run(tier, replay=None):
    ck = Check("C16", tier, "model_checking")
    mod = os.path.join(REPO, "fc")
    hp = [os.path.join(VERIF, "harness/fc"), API_DIR]
    N = 5 if tier == "quick" else 7
    env = {"VERIF_N": str(N)}
    ck.bounds = {"scanner_buffer_bytes": N, "scanner_instruction_budget": 200000}
    ck.assumptions = ["a path that exhausts the instruction budget is a candidate hang; it is reported only if the native replay does not terminate within 20 s"]
    rp = NativeReplayer(mod, "main", hp)
    if replay:
        return replay_one(ck, rp, replay, env)
    # group 1: scanner totality
    res = run_symgo(mod, hp, "main", "^Harness_C16_", steps=200000, env=env, maxpaths=2000000,
                    timeout=300 if tier == "quick" else 3000, extra=["-bound-is-violation"])
    ck.add_run(res)
    ck.handle_violations(res, rp, env=env, timeout=20, per_key=2)
    return ck.finish()
