from common import *
import glob

DICT_SHIM = r'''package dict

// Native confirmation shim for C05 (used only in a scratch build through
// go build -overlay): Keys/Values/KVs enumerate in an order chosen by
// VERIF_DICT_ORDER (sorted | rsorted | rot1) over the keys' printed form.

import (
	"fmt"
	"os"
	"sort"

	"github.com/karino2/folang/pkg/frt"
)

type Dict[K comparable, V any] struct {
	Fdict map[K]V
}

func New[K comparable, V any]() Dict[K, V] {
	res := Dict[K, V]{}
	res.Fdict = make(map[K]V)
	return res
}

func Add[K comparable, V any](d Dict[K, V], key K, v V) { d.Fdict[key] = v }

func ContainsKey[K comparable, V any](d Dict[K, V], key K) bool {
	_, ok := d.Fdict[key]
	return ok
}

func TryFind[K comparable, V any](d Dict[K, V], key K) frt.Tuple2[V, bool] {
	e, ok := d.Fdict[key]
	return frt.NewTuple2(e, ok)
}

func Item[K comparable, V any](d Dict[K, V], key K) V { return d.Fdict[key] }

func orderedKeys[K comparable, V any](d Dict[K, V]) []K {
	var ks []K
	for k := range d.Fdict {
		ks = append(ks, k)
	}
	sort.Slice(ks, func(i, j int) bool { return fmt.Sprintf("%T%v", ks[i], ks[i]) < fmt.Sprintf("%T%v", ks[j], ks[j]) })
	switch os.Getenv("VERIF_DICT_ORDER") {
	case "rsorted":
		for i, j := 0, len(ks)-1; i < j; i, j = i+1, j-1 {
			ks[i], ks[j] = ks[j], ks[i]
		}
	case "rot1":
		if len(ks) > 1 {
			ks = append(ks[1:], ks[0])
		}
	}
	return ks
}

func KVs[K comparable, V any](d Dict[K, V]) []frt.Tuple2[K, V] {
	var res []frt.Tuple2[K, V]
	for _, k := range orderedKeys(d) {
		res = append(res, frt.NewTuple2(k, d.Fdict[k]))
	}
	return res
}

func Keys[K comparable, V any](d Dict[K, V]) []K {
	var res []K
	for _, k := range orderedKeys(d) {
		res = append(res, k)
	}
	return res
}

func Values[K comparable, V any](d Dict[K, V]) []V {
	var res []V
	for _, k := range orderedKeys(d) {
		res = append(res, d.Fdict[k])
	}
	return res
}

func ToDict[K comparable, V any](ss []frt.Tuple2[K, V]) Dict[K, V] {
	dic := New[K, V]()
	for _, tp := range ss {
		k, v := frt.Destr2(tp)
		Add(dic, k, v)
	}
	return dic
}
'''


def build_fc(shim=False):
    out = os.path.join(scratch(), "fc_shim" if shim else "fc_native")
    if os.path.exists(out):
        return out
    mod = os.path.join(REPO, "fc")
    cmd = ["go", "build", "-modfile", modfile_copy(mod), "-o", out]
    if shim:
        sp = os.path.join(scratch(), "dict_shim.go")
        open(sp, "w").write(DICT_SHIM)
        ov = os.path.join(scratch(), "dict_overlay.json")
        json.dump({"Replace": {os.path.join(REPO, "pkg/dict/dict.go"): sp}}, open(ov, "w"))
        cmd += ["-overlay", ov]
    r = subprocess.run(cmd + ["."], cwd=mod, env=GOENV, capture_output=True, text=True)
    if r.returncode != 0:
        print("native fc build failed:\n" + r.stdout + r.stderr, file=sys.stderr)
        return None
    return out


def run_native(binary, files, env=None, stale=False):
    d = tempfile.mkdtemp(prefix="c05run_", dir=scratch())
    names = []
    for f in files:
        shutil.copy(f, d)
        names.append(os.path.basename(f))
        if stale and f.endswith(".fo"):
            open(os.path.join(d, "gen_" + os.path.basename(f)[:-3] + ".go"), "w").write("// stale output of an earlier run\n" * 512)
    e = dict(os.environ)
    if env:
        e.update(env)
    try:
        r = subprocess.run([binary] + names, cwd=d, env=e, capture_output=True, text=True, timeout=60)
        res = "exit=%d\n" % r.returncode
    except subprocess.TimeoutExpired:
        res = "exit=timeout\n"
    for g in sorted(glob.glob(os.path.join(d, "gen_*.go"))):
        res += "== %s\n%s" % (os.path.basename(g), open(g).read())
    shutil.rmtree(d, ignore_errors=True)
    return res


def native_confirm(files, runs=300):
    """Two different (exit, files) results of the real compiler on the same input."""
    seen = {}
    b = build_fc()
    if b:
        # an output of an earlier run already present must not matter either
        seen.setdefault(run_native(b, files), "fresh directory")
        seen.setdefault(run_native(b, files, stale=True), "longer outputs of an earlier run present")
        if len(seen) > 1:
            return seen
        for _ in range(runs):
            seen.setdefault(run_native(b, files), "go map order (run repeated)")
            if len(seen) > 1:
                return seen
    s = build_fc(shim=True)
    if s:
        for mode in ("sorted", "rsorted", "rot1"):
            seen.setdefault(run_native(s, files, {"VERIF_DICT_ORDER": mode}), "dict shim order=" + mode)
            if len(seen) > 1:
                return seen
    return seen


def templates(tier):
    ts = [[os.path.join(VERIF, "corpus/mini_frt.foi"), t] for t in sorted(glob.glob(os.path.join(VERIF, "corpus/c05/*.fo")))]
    if tier == "thorough":
        for s in ["record.fo", "union_match.fo", "type_inference.fo", "generic_func.fo", "dict_sample.fo"]:
            ts.append([os.path.join(REPO, "pkg/pkg_all.foi"), os.path.join(REPO, "samples", s)])
    return ts


def run(tier, replay=None):
    ck = Check("C05", tier, "model_checking")
    mod = os.path.join(REPO, "fc")
    hp = [os.path.join(VERIF, "harness/fc"), API_DIR]
    W = 4 if tier == "quick" else 5
    ck.bounds = {"forking_window": "%d consecutive map-iteration events per run; windows slide over all events of the run" % W,
                 "orders_per_event": "all permutations for maps of <= 3 entries; insertion / reverse / rotate-by-1 above",
                 "global_strategies": ["every iteration reversed", "every iteration rotated by one"],
                 "site_lemmas": "scLookupRecFac (2..3 records with symbolic 2-byte names, both field orders, both literal orders), eqsUnion + rsRegisterNewEI (4 symbolic variable names), exhaustiveness accept/reject: all 6 enumeration orders inside one path",
                 "templates": [os.path.basename(t[-1]) for t in templates(tier)]}
    ck.assumptions = ["the only sources of nondeterminism of fc are range-over-map instructions (all inside dict.Keys/Values/KVs today); the engine makes each one's order a choice",
                      "besides its input files a run can see outputs of an earlier run at its destinations: one run per template starts with longer gen files in place",
                      "violation = two orders with different (exit status, output files); differing diagnostics on stdout are recorded but not violations",
                      "native confirmation: the real binary run repeatedly under Go's random map order, then a build whose dict.Keys/Values/KVs enumerate in sorted / reverse-sorted / rotated key order"]
    if replay:
        j = json.load(open(replay))
        seen = native_confirm(j["files"])
        print("replay: %d distinct native results" % len(seen))
        if len(seen) > 1:
            print("VIOLATION property=C05 replay=%s" % replay)
            return 1
        return 0
    # site lemmas: consumers of dict.Keys/Values/KVs on dictionaries with symbolic keys, every order in one path
    res = run_symgo(mod, hp, "main", "^Harness_C05_Site_", steps=5000000, timeout=200)
    ck.add_run(res)
    ck.handle_violations(res, NativeReplayer(mod, "main", hp), timeout=120)
    stdout_diffs = []
    for files in templates(tier):
        name = os.path.basename(files[-1])
        env = {"VERIF_FILES": " ".join(files)}
        digests = {}
        texts = {}
        choices = {}
        std = set()

        def collect(res):
            ck.add_run(res)
            h = res["harnesses"][0]
            h["harness"] = "Harness_C05_Template[%s]" % name
            for d, n in (h.get("outputs") or {}).items():
                if d.startswith("result="):
                    digests[d] = digests.get(d, 0) + n
                    if d in (h.get("out_texts") or {}):
                        texts.setdefault(d, h["out_texts"][d])
                        choices.setdefault(d, h["out_choices"].get(d))
                elif d.startswith("stdout="):
                    std.add(d)
            return h.get("max_iter_events", 0)

        frm, total = 0, 1
        while frm < total and frm < 400:
            res = run_symgo(mod, hp, "main", "^Harness_C05_Template$", steps=20000000, env=env, oracle="maporder",
                            maporder_events=W, extra=["-maporder-from", str(frm)], timeout=120, maxpaths=200000)
            total = max(total, collect(res))
            frm += W
        for mode in ("reverse", "rotate"):
            collect(run_symgo(mod, hp, "main", "^Harness_C05_Template$", steps=20000000, env=env, oracle="maporder",
                              extra=["-maporder-mode", mode], timeout=120))
        # fresh directory vs. outputs of an earlier run already present
        collect(run_symgo(mod, hp, "main", "^Harness_C05_Template$", steps=20000000, env=dict(env, VERIF_STALE="1"), timeout=120))
        ck.extra.setdefault("templates", []).append({"template": name, "map_iteration_events": total,
                                                     "distinct_results": len(digests), "distinct_stdout": len(std)})
        if len(std) > 1:
            stdout_diffs.append(name)
        if len(digests) > 1:
            key = "C05:%s:output files depend on map iteration order" % name  # (or on files of an earlier run: see native_detail)
            path = os.path.join(ck.replay_dir(), name + ".json")
            ds = sorted(digests)
            json.dump({"property": "C05", "template": name, "files": files,
                       "results": [{"digest": d, "choices": choices.get(d), "text": texts.get(d)} for d in ds[:2]]},
                      open(path, "w"), indent=1)
            ck.replays += 1
            seen = native_confirm(files)
            rec = {"key": key, "count": sum(digests.values()), "replay": path, "native_outcome": "%d distinct native results" % len(seen),
                   "native_detail": "; ".join(seen.values()), "assignment": {"choices_a": choices.get(ds[0]), "choices_b": choices.get(ds[1])},
                   "msg": "output files depend on map iteration order"}
            if len(seen) > 1:
                kf = known_match("C05", key)
                if kf:
                    rec["finding"] = kf.get("what", "")
                    ck.known.append(rec)
                else:
                    ck.violations.append(rec)
            else:
                ck.spurious.append({"key": key, "count": rec["count"], "native": list(seen.values())})
    ck.extra["stdout_depends_on_order"] = stdout_diffs
    ck.programs = len(templates(tier))
    return ck.finish()
