"""Prints the rows of the seeded-changes table of DESIGN.md section 11 from seeded/*/meta.json."""
import json, os, re
d='/verif/seeded'
rows=[]
for name in sorted(os.listdir(d)):
    m=json.load(open(os.path.join(d,name,'meta.json')))
    by=[]
    for c in m.get('caught_by',[]):
        c=c.strip()
        c=c.split(':assert:')[0].split(':panic:')[0].split(':bound:')[0]
        if c not in by: by.append(c)
    chk=m.get("detected_by_check") or m["property"]
    rows.append("| `%s` | %s | %s | `./check %s`: %s |" % (name, m['property'], m['needs_to_manifest'].replace('|','\\|'), chk, ", ".join("`%s`"%b for b in by[:4]) or ("MISSED" if not m.get('detected') else "")))
print("\n".join(rows))
