from common import *
from c12 import replay_one


def run(tier, replay=None):
    ck = Check("C18", tier, "model_checking")
    mod = os.path.join(REPO, "cmd/build_sample_md")
    hp = [os.path.join(VERIF, "harness/bsm"), API_DIR]
    N = 5 if tier == "quick" else 6  # 7 exceeds 10^6 paths since runs also start with an old README in place
    env = {"VERIF_N": str(N)}
    ck.bounds = {"list_file_bytes": N, "sample_file_bytes": 2, "entries": "as many as fit in the list bytes"}
    ck.assumptions = ["list bytes are newline, blank, '.', '%' or a lower-case letter; every non-empty line starts with a letter (a file name)",
                      "os.ReadFile/WriteFile/Args/Exit and fmt.Printf run against the engine's per-path virtual file system; path/filepath.Join/Dir are interpreted from the real std source",
                      "the byte-exact section format is that of the checked-in samples/README.md"]
    rp = NativeReplayer(mod, "main", hp, whole_program=True)
    if replay:
        return replay_one(ck, rp, replay, env)
    res = run_symgo(mod, hp, "main", "^Harness_C18_", steps=5000000, env=env, maxpaths=1000000,
                    timeout=300 if tier == "quick" else 3000)
    ck.add_run(res)
    ck.handle_violations(res, rp, env=env, timeout=60)
    return ck.finish()
