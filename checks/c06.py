from common import *
from c12 import replay_one


def run(tier, replay=None):
    ck = Check("C06", tier, "model_checking")
    mod = os.path.join(REPO, "fc")
    hp = [os.path.join(VERIF, "harness/fc"), API_DIR]
    N = 4 if tier == "quick" else 6
    env = {"VERIF_N": str(N), "VERIF_TIER": tier}
    ck.bounds = {"scanner_lemma_buffer_bytes": N,
                 "layout_lemma": "templates in line-start normal form; every line's indentation is a symbolic integer constrained only by the indentation tree; optional line breaks / blank lines / comments as choices"}
    ck.assumptions = ["(A) tokens and comments do not span lines (multi-line raw strings and block comments containing a newline are a stated boundary of the layout grammar); tabs count one column",
                      "(B) the parser reads layout only through Tokenizer.col, the offside stack and EOL tokens; the harness replaces the col computed by tkzNext/newTkz with canonical offset + symbolic indentation of the line, which by (A) is what the real tokenizer yields for the re-indented text",
                      "(B) constraint on indentations = the canonical file's indentation tree: top level at 0, children strictly right of their parent line, siblings equal"]
    rp = NativeReplayer(mod, "main", hp)
    if replay:
        return replay_one(ck, rp, replay, env)
    res = run_symgo(mod, hp, "main", "^Harness_C06A_", steps=1000000, env=env, maxpaths=5000000,
                    timeout=300 if tier == "quick" else 3000)
    ck.add_run(res)
    ck.handle_violations(res, rp, env=env, timeout=30)
    res = run_symgo(mod, hp, "main", "^Harness_C06B_", steps=20000000, env=env, maxpaths=3000000,
                    timeout=600 if tier == "quick" else 3000)
    if res.get("harnesses"):
        ck.add_run(res)
        ck.handle_violations(res, rp, env=env, timeout=60)
    return ck.finish()
