from common import *
from l2 import *
import c03gen


def ref_of(fo):
    return [fo[:-3] + "_ref.go"]


def run(tier, replay=None):
    ck = Check("C03", tier, "translation_validation")
    corpus = os.path.join(VERIF, "corpus/c03")
    env = {}
    fo_txt, ref_txt, ncases = c03gen.gen()
    ck.bounds = {"declaration_corpus": "corpus/c03/decl.fo with the hand-written client decl_ref.go",
                 "foreign_call_family": "%d generated callers: arity 1..4 x arguments given at the binding 0..n x direct / stored partial / piped; callee in package _ and in a named package; explicit type arguments" % ncases,
                 "inputs": "all argument values (BitVec 64), strings of <= 2 symbolic bytes"}
    ck.assumptions = ["names in client code are exactly the documented ones; go build decides 'client compiles'",
                      "the callee a - 2b + 3c - 5d is asymmetric, so any permutation of arguments or closure parameters changes the term"]
    fc = build_tool("fc")
    m = L2Module("c03")
    gen_dir = os.path.join(m.dir, "_gen")
    os.makedirs(gen_dir)
    open(os.path.join(gen_dir, "calls.fo"), "w").write(fo_txt)
    fos = [os.path.join(corpus, "decl.fo"), os.path.join(gen_dir, "calls.fo")]
    m.transpile(fc, os.path.join(REPO, "pkg/pkg_all.foi"), fos)
    shutil.rmtree(gen_dir)
    m.add_api()
    os.makedirs(os.path.join(m.dir, "extpkg"))
    shutil.copy(os.path.join(corpus, "extpkg/extpkg.go"), os.path.join(m.dir, "extpkg"))
    m.add_go([os.path.join(corpus, "common.go"), os.path.join(corpus, "local_ext.go")])
    if "decl.fo" in m.programs:
        m.add_go([os.path.join(corpus, "decl_ref.go")])
    if "calls.fo" in m.programs:
        open(os.path.join(m.dir, "calls_ref.go"), "w").write(ref_txt)
    ok = m.typecheck(ref_of)
    rp = NativeReplayer(m.dir, "main", [], use_modfile=False)
    if replay:
        from c12 import replay_one
        return replay_one(ck, rp, replay, env)
    for kind, table in (("rejected", m.rejected), ("does-not-compile", m.not_compiling)):
        for fo, msg in sorted(table.items()):
            key = "C03:%s:%s" % (fo, "fc rejects the corpus" if kind == "rejected" else "emitted Go / client does not compile")
            path = os.path.join(ck.replay_dir(), "%s.%s.json" % (fo, kind))
            json.dump({"property": "C03", "kind": kind, "program": fo, "detail": msg}, open(path, "w"), indent=1)
            rec = {"key": key, "count": 1, "replay": path, "native_outcome": kind, "native_detail": msg[:300], "assignment": {}, "msg": msg[:200]}
            kf = known_match("C03", key)
            (ck.known if kf else ck.violations).append(dict(rec, finding=(kf or {}).get("what", "")))
    if not ok and not m.not_compiling:
        # a client (reference) file failed to compile against the emitted declarations
        r = subprocess.run(["go", "build", "-o", os.devnull, "."], cwd=m.dir, env=GOENV, capture_output=True, text=True)
        key = "C03:client:hand-written client does not compile against the emitted declarations"
        path = os.path.join(ck.replay_dir(), "client.does-not-compile.json")
        json.dump({"property": "C03", "kind": "does-not-compile", "program": "client", "detail": r.stderr[-1500:]}, open(path, "w"), indent=1)
        ck.violations.append({"key": key, "count": 1, "replay": path, "native_outcome": "go build failed", "native_detail": r.stderr[-300:],
                              "assignment": {}, "msg": r.stderr[-200:]})
    if ok:
        res = run_symgo(m.dir, [], "main", "^Harness_C03_", steps=5000000, env=env, maxpaths=2000000, use_modfile=False, timeout=300)
        ck.add_run(res)
        ck.handle_violations(res, rp, env=env, timeout=60)
    ck.programs = len(m.programs) + ncases
    return ck.finish()
