from common import *
from c12 import replay_one

MODS = [("pkg/dict", "dict"), ("pkg/strings", "strings"), ("pkg/buf", "buf"), ("pkg/frt", "frt")]


def run(tier, replay=None):
    ck = Check("C14", tier, "model_checking")
    env = {"VERIF_K": "3" if tier == "quick" else "6", "VERIF_N": "3" if tier == "quick" else "9"}
    ck.bounds = {"dict_operation_sequence": int(env["VERIF_K"]), "string_bytes": int(env["VERIF_N"]),
                 "separator_bytes": 2, "buf_writes": 3, "format_kinds": 13}
    ck.assumptions = ["strings.HasPrefix/HasSuffix/TrimSuffix/Split/SplitN are interpreted from the real std source down to internal/bytealg (IndexByteString/CountString and strings.Index/Count are engine stand-ins)",
                      "bytes.Buffer, reflect.ValueOf/Kind/Int/Uint/Float/String and fmt.Sprintf are contract models in the engine; every counterexample is replayed against the real std library",
                      "formatted integers are restricted to -1000<n<1000 (decimal rendering forks on digit count)"]
    if replay:
        j = json.load(open(replay))
        for m, pkg in MODS:
            hp = [os.path.join(VERIF, "harness", pkg), API_DIR]
            src = "".join(open(os.path.join(hp[0], f)).read() for f in os.listdir(hp[0]))
            if "func %s(" % j["harness"] in src:
                return replay_one(ck, NativeReplayer(os.path.join(REPO, m), pkg, hp), replay, env)
        return 2
    for m, pkg in MODS:
        mod = os.path.join(REPO, m)
        hp = [os.path.join(VERIF, "harness", pkg), API_DIR]
        res = run_symgo(mod, hp, pkg, "^Harness_C14_", steps=2000000, env=env, maxpaths=500000,
                        timeout=120 if tier == "quick" else 1200)
        ck.add_run(res)
        ck.handle_violations(res, NativeReplayer(mod, pkg, hp), env=env, timeout=30)
    return ck.finish()
