from common import *
from c12 import replay_one
from l2part import run_l2_part


def run(tier, replay=None):
    ck = Check("C09", tier, "model_checking")
    mod = os.path.join(REPO, "fc")
    hp = [os.path.join(VERIF, "harness/fc"), API_DIR]
    n = 3 if tier == "quick" else 4
    env = {"VERIF_CASES": str(n)}
    ck.bounds = {"union_cases": "1..%d" % n, "arms": "1..cases+1 (every subset, order and duplication)", "default_arm": "with/without",
                 "arm_payload_forms": "bind / _ / none", "contexts": "function body, let right-hand side, inside if; plus an inner function in a pipe on a generic union"}
    ck.assumptions = ["arms name cases of the matched union; bind/_ only on cases with payload (other programs are ill-typed)",
                      "Sym family: the arm's case name ends in a symbolic digit byte; the oracle accept <=> default or cover is a formula over the same bytes",
                      "the real main() runs over the engine's virtual file system (exit status, stdout, written files)"]
    rp = NativeReplayer(mod, "main", hp, whole_program=True)
    if replay:
        j = json.load(open(replay))
        if j.get("harness", "").startswith("Harness_C09L2_"):
            return replay_one(ck, run_l2_part(Check("C09", tier, "model_checking"), "C09", "c09", "^$", {}, tier), replay, {})
        return replay_one(ck, rp, replay, env)
    res = run_symgo(mod, hp, "main", "^Harness_C09_", steps=5000000, env=env, maxpaths=2000000,
                    timeout=600 if tier == "quick" else 6000)
    ck.add_run(res)
    ck.handle_violations(res, rp, env=env, timeout=60)
    # the consequence clause end to end: accepted programs through the freshly built fc, their matches run on every value
    run_l2_part(ck, "C09", "c09", "^Harness_C09L2_", {}, tier)
    return ck.finish()
