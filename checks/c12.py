from common import *


def run(tier, replay=None):
    ck = Check("C12", tier, "model_checking")
    mod = os.path.join(REPO, "pkg/slice")
    hp = [os.path.join(VERIF, "harness/slice"), API_DIR]
    M = 4 if tier == "quick" else 5
    env = {"VERIF_M": str(M)}
    ck.bounds = {"backing_array_elements": M, "windows": "every offset/len/cap inside the array", "steps": "one call (inductive); two-step pairs as cross-check",
                 "two_step_ops": 15, "element_type": "int (BitVec 64)", "instruction_budget_per_path": 2000000}
    ck.assumptions = ["every slice value a Folang program holds is a window of some array (Go semantics)",
                      "documented preconditions: Tail/PopLast non-empty, 0<=n<=len for Take/Skip, equal lengths for Zip",
                      "callbacks are pure; family x+c, x<c, x==c, -x with symbolic c",
                      "slices.SortFunc and cmp.Compare are interpreted from the real std source (no model)"]
    rp = NativeReplayer(mod, "slice", hp)
    if replay:
        return replay_one(ck, rp, replay, env)
    # one inductive step per exported function
    res = run_symgo(mod, hp, "slice", "^Harness_C12_", steps=2000000, env=env, maxpaths=400000, timeout=600)
    ck.add_run(res)
    ck.handle_violations(res, rp, env=env)
    # two-step histories: cross-check of the inductive argument
    env2 = dict(env, VERIF_M="3" if tier == "quick" else "4")
    ck.bounds["two_step_array_elements"] = int(env2["VERIF_M"])
    res = run_symgo(mod, hp, "slice", "^Harness_C12x_TwoStep$", steps=2000000, env=env2, maxpaths=1000000,
                    timeout=100 if tier == "quick" else 1500)
    ck.add_run(res)
    ck.handle_violations(res, rp, env=env2)
    return ck.finish()


def replay_one(ck, rp, path, env):
    j = json.load(open(path))
    outcome, detail = rp.run(j["harness"], path, env=env)
    print("replay %s: %s %s" % (path, outcome, detail[:300]))
    if outcome in ("assert", "panic", "timeout", "fatal"):
        print("VIOLATION property=%s replay=%s" % (ck.prop, path))
        return 1
    return 0
