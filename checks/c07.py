from common import *
from c12 import replay_one


def run(tier, replay=None):
    ck = Check("C07", tier, "model_checking")
    mod = os.path.join(REPO, "fc")
    hp = [os.path.join(VERIF, "harness/fc"), API_DIR]
    env = {"VERIF_PERMS": "2" if tier == "quick" else "3", "VERIF_SLOTS": "2" if tier == "quick" else "3",
           "VERIF_CUTS": "1" if tier == "quick" else "2"}
    ck.bounds = {"templates": 3, "unrelated_definitions": "function, record, union+function (each present or not, at %s places), package_info entry in a .foi file" % env["VERIF_SLOTS"],
                 "dependency_orders": int(env["VERIF_PERMS"]), "file_cuts": "0..%s cuts at every position" % env["VERIF_CUTS"],
                 "symbolic_identifiers": "names of the unrelated function and record: 3 symbolic lower-case bytes each"}
    ck.assumptions = ["unrelated names differ from every name the target mentions and from keywords; the unrelated record has a different field-name set",
                      "only independent dependencies are permuted; files are passed in dependency order",
                      "comparison of the target's declaration text after renumbering _vN by first occurrence",
                      "the real main() runs over the engine's virtual file system (two runs per path: minimal package and variant)"]
    rp = NativeReplayer(mod, "main", hp, whole_program=True)
    if replay:
        return replay_one(ck, rp, replay, env)
    res = run_symgo(mod, hp, "main", "^Harness_C07_", steps=20000000, env=env, maxpaths=3000000,
                    timeout=900 if tier == "quick" else 4000)
    ck.add_run(res)
    ck.handle_violations(res, rp, env=env, timeout=60)
    return ck.finish()
