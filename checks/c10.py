from common import *
from c12 import replay_one
from l2part import run_l2_part


def run(tier, replay=None):
    ck = Check("C10", tier, "model_checking")
    mod = os.path.join(REPO, "pkg/frt")
    hp = [os.path.join(VERIF, "harness/frt"), API_DIR]
    env = {}
    ck.bounds = {"slice_lengths": "0..2", "nesting_depth": 2, "slice_producers": ["append-built (nil when empty)", "literal/slice.New (non-nil)", "Tail-like sub-slice", "PopLast-like sub-slice with spare capacity"],
                 "types": ["int", "string", "bool", "Tuple2", "Tuple3", "record upper-case", "record lower-case", "union (interface + case structs)", "[]int", "[][]int", "record{string, []int, union}", "[]record"]}
    ck.assumptions = ["cmp.Equal is a contract model in the engine (ext.go: recursive on exported fields, panic on unexported ones unless cmp.Exporter covers them, nil slice != empty slice unless cmpopts.EquateEmpty); the model only proposes: every counterexample is replayed against the real go-cmp",
                      "values are the Go representations fc emits (structs, frt.TupleN, interface + case structs, slices)"]
    rp = NativeReplayer(mod, "frt", hp)
    if replay:
        j = json.load(open(replay))
        if j.get("harness", "").startswith("Harness_C10L2_"):
            return replay_one(ck, run_l2_part(Check("C10", tier, "model_checking"), "C10", "c10", "^$", {"VERIF_L": "2"}, tier), replay, {"VERIF_L": "2"})
        return replay_one(ck, rp, replay, env)
    res = run_symgo(mod, hp, "frt", "^Harness_C10_", steps=2000000, env=env, maxpaths=500000,
                    timeout=200 if tier == "quick" else 1500)
    ck.add_run(res)
    ck.handle_violations(res, rp, env=env, timeout=30)
    # end-to-end: Folang programs through the real fc, operands from the real slice library
    run_l2_part(ck, "C10", "c10", "^Harness_C10L2_", {"VERIF_L": "2"}, tier)
    return ck.finish()
