from common import *
from c12 import replay_one
from l2part import run_l2_part


def run(tier, replay=None):
    ck = Check("C11", tier, "model_checking")
    mod = os.path.join(REPO, "fc")
    hp = [os.path.join(VERIF, "harness/fc"), API_DIR]
    N = 4 if tier == "quick" else 6
    env = {"VERIF_N": str(N)}
    ck.bounds = {"literal_body_bytes": N, "forms": ['"…"', '`…`', '$"…"', '$`…`'], "hole_values": "a: any 1-byte string, b: int in 0..99"}
    ck.assumptions = ["body bytes are printable ASCII, tab or newline (multi-byte UTF-8 is covered by concrete corpus programs in the L2 part)",
                      "in \"…\"/$\"…\" every backslash starts one of \\n \\t \\\\ \\\" (and \\{ \\} in $\"…\"); no bare quote / backtick inside the body",
                      "in $-forms every '{' opens {a} or {b}, '}' only closes a hole",
                      "Go's rule for interpreted literals: model in the harness inside symgo, strconv.Unquote itself in the native replay",
                      "fmt.Sprintf: contract model in the engine (ext.go), the real fmt in the native replay"]
    rp = NativeReplayer(mod, "main", hp)
    if replay:
        j = json.load(open(replay))
        if j.get("harness", "").startswith("Harness_C11L2_"):
            return replay_one(ck, run_l2_part(Check("C11", tier, "model_checking"), "C11", "c11", "^$", {}, tier), replay, {})
        return replay_one(ck, rp, replay, env)
    res = run_symgo(mod, hp, "main", "^Harness_C11_", steps=2000000, env=env, maxpaths=1000000,
                    timeout=300 if tier == "quick" else 3000)
    ck.add_run(res)
    ck.handle_violations(res, rp, env=env, timeout=30, per_key=3)
    # end-to-end: literal programs (incl. multi-byte UTF-8) through the real fc
    run_l2_part(ck, "C11", "c11", "^Harness_C11L2_", {}, tier)
    if tier == "thorough":
        cross_solver(ck, mod, hp, "main", "^Harness_C11_(String|Raw)$", env={"VERIF_N": "3"})
    return ck.finish()
