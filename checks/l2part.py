"""Shared L2 part for checks whose main body is L1 (C10, C11)."""
from common import *
from l2 import *
import glob


def run_l2_part(ck, prop, corpus_name, run_re, env, tier):
    corpus = os.path.join(VERIF, "corpus", corpus_name)
    fc = build_tool("fc")
    m = L2Module(corpus_name)
    fos = sorted(glob.glob(os.path.join(corpus, "*.fo")))
    m.transpile(fc, os.path.join(REPO, "pkg/pkg_all.foi"), fos)
    m.add_api()
    ref_of = lambda fo: [fo[:-3] + "_ref.go"]
    m.add_go([os.path.join(corpus, "common.go")] + [os.path.join(corpus, ref_of(p)[0]) for p in m.programs])
    ok = m.typecheck(ref_of)
    for kind, table in (("rejected", m.rejected), ("does-not-compile", m.not_compiling)):
        for fo, msg in sorted(table.items()):
            key = "%s:%s:%s" % (prop, fo, kind)
            path = os.path.join(ck.replay_dir(), "%s.%s.json" % (fo, kind))
            json.dump({"property": prop, "kind": kind, "program": fo, "detail": msg}, open(path, "w"), indent=1)
            rec = {"key": key, "count": 1, "replay": path, "native_outcome": kind, "native_detail": msg[:300], "assignment": {}, "msg": msg[:200]}
            kf = known_match(prop, key)
            (ck.known if kf else ck.violations).append(dict(rec, finding=(kf or {}).get("what", "")))
    rp = NativeReplayer(m.dir, "main", [], use_modfile=False)
    if ok:
        res = run_symgo(m.dir, [], "main", run_re, steps=5000000, env=env, maxpaths=1000000, use_modfile=False, timeout=300)
        ck.add_run(res)
        ck.handle_violations(res, rp, env=env, timeout=60)
    ck.programs += len(m.programs)
    return rp
