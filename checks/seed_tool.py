"""Keeps a confirmed seeded change under /verif/seeded/<name>/ and runs a check against it.

usage: seed_tool.py keep <name> <property> <src_dir> "<needs>" "<ran>"
       seed_tool.py run  <name> [<check id>]     (applies the patch to /repo, runs the quick check, undoes it)
"""
import json, os, shutil, subprocess, sys
VERIF = os.path.dirname(os.path.dirname(os.path.abspath(__file__)))


def keep(name, prop, src, needs, ran):
    d = os.path.join(VERIF, "seeded", name)
    os.makedirs(d, exist_ok=True)
    for f in os.listdir(src):
        p = os.path.join(src, f)
        if f in ("fc", "fc_bin") or (os.path.isfile(p) and os.path.getsize(p) > 300000):
            continue
        if os.path.isdir(p):
            if f in ("demo", "demo_inputs", "inputs"):
                shutil.copytree(p, os.path.join(d, f), dirs_exist_ok=True,
                                ignore=shutil.ignore_patterns("fc", "*.test", "gen_*.go", "go.sum"))
            continue
        shutil.copy(p, d)
    meta = {"property": prop, "needs_to_manifest": needs, "what_i_ran": ran, "caught_by": [], "detected": None}
    json.dump(meta, open(os.path.join(d, "meta.json"), "w"), indent=1)


def run(name, check=None):
    d = os.path.join(VERIF, "seeded", name)
    meta = json.load(open(os.path.join(d, "meta.json")))
    default_check = meta.get("detected_by_check") or meta["property"]
    check = check or default_check
    ev = os.path.join(VERIF, "evidence", check + ".json")
    saved = open(ev).read() if os.path.exists(ev) else None
    # SEED_REPO=<dir>: apply the patch in a scratch worktree of /repo instead (the checks follow VERIF_REPO),
    # so that other runs reading /repo are not disturbed; default is /repo itself
    repo = os.environ.get("SEED_REPO", "/repo")
    env = dict(os.environ)
    if repo != "/repo":
        if not os.path.isdir(repo):
            subprocess.run(["git", "-C", "/repo", "worktree", "add", "-q", "--detach", repo, "HEAD"], check=True)
        subprocess.run(["git", "-C", repo, "checkout", "-q", "--detach", subprocess.run(["git", "-C", "/repo", "rev-parse", "HEAD"], capture_output=True, text=True).stdout.strip()], check=True)
        env["VERIF_REPO"] = repo
    subprocess.run(["git", "-C", repo, "apply", os.path.join(d, "patch.diff")], check=True)
    try:
        r = subprocess.run([os.path.join(VERIF, "check"), check, "--tier", "quick"], capture_output=True, text=True, cwd=VERIF, env=env)
    finally:
        subprocess.run(["git", "-C", repo, "checkout", "--", "."], check=True)
        # the evidence file must describe the unchanged tree, not the seeded one
        if saved is not None:
            open(ev, "w").write(saved)
    lines = [l for l in r.stdout.splitlines() if l.startswith("VIOLATION")]
    detected = r.returncode == 1 and bool(lines)
    caught = sorted({l.split("#", 1)[1].strip() if "#" in l else l for l in lines})[:8]
    if check == default_check:
        # only the property's own check (or the one recorded as reporting it) updates the record
        meta["detected"], meta["caught_by"], meta["check_exit"] = detected, caught, r.returncode
        json.dump(meta, open(os.path.join(d, "meta.json"), "w"), indent=1)
    print(name, "[%s]" % check, "exit", r.returncode, "detected" if detected else "MISSED")
    for l in caught[:4]:
        print("   ", l[:160])
    if r.returncode not in (0, 1):
        print(r.stdout[-800:], r.stderr[-800:])


if __name__ == "__main__":
    if sys.argv[1] == "keep":
        keep(*sys.argv[2:7])
    else:
        run(*sys.argv[2:4])
