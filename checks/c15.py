from common import *
from c12 import replay_one


def run(tier, replay=None):
    ck = Check("C15", tier, "model_checking")
    mod = os.path.join(REPO, "fc")
    hp = [os.path.join(VERIF, "harness/fc"), API_DIR]
    env = {"VERIF_NODES": "4", "VERIF_DEPTH": "1" if tier == "quick" else "2", "VERIF_SPINE": "2" if tier == "quick" else "3"}
    ck.bounds = {"full_trees": "all trees of depth <= %s (node budget 4) over 4 atoms" % env["VERIF_DEPTH"],
                 "spine_trees": "nesting depth %s along one path (siblings int), optional redundant parentheses" % env["VERIF_SPINE"], "positions": 5,
                 "constructors": "atoms, []T, T*U, T*U*V, A->B, A->B->C, ()->A, A->(), Name<T>, Name<T,U> (external), user generic, redundant root parentheses",
                 "identifier_family": "one atom = 3..6 symbolic lower-case bytes, alone / under [] / in a tuple / in a function type, in every position"}
    ck.assumptions = ["structural family uses the atoms int, float, rec (record), ext.Plain (external); every atom is covered once per position by Harness_C15_Atoms",
                      "the symbolic identifier is not a keyword; unknown names must be rejected",
                      "reference translation printed by the generator from the same tree; comparison ignores blanks and newlines"]
    rp = NativeReplayer(mod, "main", hp)
    if replay:
        return replay_one(ck, rp, replay, env)
    res = run_symgo(mod, hp, "main", "^Harness_C15_", steps=5000000, env=env, maxpaths=3000000,
                    timeout=400 if tier == "quick" else 1500)
    ck.add_run(res)
    ck.handle_violations(res, rp, env=env, timeout=60)
    return ck.finish()
