// symgo: symbolic execution of Go packages from go/ssa with an SMT solver.
//
//	symgo run -dir /repo/pkg/slice -harness /verif/harness/slice -run '^Harness_' -out r.json
//
// The package in -dir is loaded from the current working tree on every run;
// the *.go files of -harness are added to it through a go/packages overlay
// (nothing is written into the source tree).
package main

import (
	"encoding/json"
	"flag"
	"fmt"
	"os"
	"path/filepath"
	"regexp"
	"sort"
	"strings"
	"time"

	"golang.org/x/tools/go/ssa"

	"symgo/interp"
)

type runOutput struct {
	Dir       string                  `json:"dir"`
	LoadS     float64                 `json:"load_s"`
	Targets   []string                `json:"target_packages"`
	Harnesses []*interp.HarnessResult `json:"harnesses"`
	WallS     float64                 `json:"wall_s"`
	Solver    string                  `json:"solver"`
	LoadError string                  `json:"load_error,omitempty"`
	Options   map[string]interface{}  `json:"options"`
}

func main() {
	if len(os.Args) < 2 {
		fmt.Fprintln(os.Stderr, "usage: symgo run|list [flags]")
		os.Exit(2)
	}
	switch os.Args[1] {
	case "run":
		os.Exit(cmdRun(os.Args[2:]))
	default:
		fmt.Fprintln(os.Stderr, "unknown command", os.Args[1])
		os.Exit(2)
	}
}

func cmdRun(args []string) int {
	fs := flag.NewFlagSet("run", flag.ExitOnError)
	dir := fs.String("dir", "", "package directory (loaded from the working tree)")
	hdirs := fs.String("harness", "", "comma separated directories/files whose *.go files are overlaid into -dir")
	modfile := fs.String("modfile", "", "alternative go.mod (so that -mod=mod never rewrites the repository's)")
	runRe := fs.String("run", "^Harness_", "regexp selecting harness functions")
	out := fs.String("out", "", "result JSON file (default stdout)")
	steps := fs.Int64("steps", 20_000_000, "instruction budget per path")
	depth := fs.Int("depth", 3000, "call depth limit")
	maxPaths := fs.Int("maxpaths", 200000, "path limit per harness")
	workers := fs.Int("workers", 0, "worker count (0 = NumCPU)")
	solverMS := fs.Int("solver-ms", 10000, "per query solver timeout")
	oracle := fs.String("oracle", "", "comma list: maporder, capacity")
	mapEvents := fs.Int("maporder-events", 12, "forking map iteration events per path")
	mapFrom := fs.Int("maporder-from", 0, "map iteration events before this index keep insertion order")
	mapMode := fs.String("maporder-mode", "", "global strategy instead of a forking window: reverse | rotate")
	samples := fs.Int("samples", 5, "path samples kept per harness")
	solverCmd := fs.String("solver", "z3 -in -smt2", "solver command")
	smtLog := fs.String("smtlog", "", "directory for SMT transcripts")
	verbose := fs.Bool("v", false, "progress on stderr")
	timeout := fs.Int("timeout", 0, "wall clock limit in seconds per harness (0 = none)")
	stopOnViol := fs.Bool("stop-on-violation", false, "stop a harness at its first violation")
	pathSec := fs.Int("path-seconds", 300, "wall clock limit per path in seconds (0 = none); an exceeded path is inconclusive")
	boundViol := fs.Bool("bound-is-violation", false, "record budget exhaustion as a candidate violation (termination properties)")
	pkgName := fs.String("pkgname", "", "package clause for overlaid files containing 'package VERIFPKG'")
	fs.Parse(args)

	t0 := time.Now()
	interp.SolverCmd = strings.Fields(*solverCmd)
	ro := &runOutput{Dir: *dir, Solver: *solverCmd, Options: map[string]interface{}{
		"steps": *steps, "depth": *depth, "maxpaths": *maxPaths, "oracle": *oracle, "solver_ms": *solverMS, "run": *runRe,
	}}
	finish := func(code int) int {
		ro.WallS = time.Since(t0).Seconds()
		b, _ := json.MarshalIndent(ro, "", " ")
		if *out == "" {
			os.Stdout.Write(b)
			fmt.Println()
		} else if err := os.WriteFile(*out, b, 0644); err != nil {
			fmt.Fprintln(os.Stderr, "symgo:", err)
			return 2
		}
		return code
	}

	absDir, _ := filepath.Abs(*dir)
	overlay := map[string][]byte{}
	for _, h := range strings.Split(*hdirs, ",") {
		if h == "" {
			continue
		}
		var files []string
		if st, err := os.Stat(h); err == nil && st.IsDir() {
			m, _ := filepath.Glob(filepath.Join(h, "*.go"))
			files = m
		} else {
			files = []string{h}
		}
		for _, f := range files {
			b, err := os.ReadFile(f)
			if err != nil {
				fmt.Fprintln(os.Stderr, "symgo:", err)
				return 2
			}
			if *pkgName != "" {
				b = []byte(strings.Replace(string(b), "package VERIFPKG", "package "+*pkgName, 1))
			}
			overlay[filepath.Join(absDir, "zz_verif_"+filepath.Base(f))] = b
		}
	}
	var flags []string
	if *modfile != "" {
		flags = append(flags, "-modfile="+*modfile)
	}
	w, err := interp.Load(absDir, overlay, flags, nil)
	if err != nil {
		ro.LoadError = err.Error()
		fmt.Fprintln(os.Stderr, "symgo: load failed:", err)
		return finish(3)
	}
	ro.LoadS = w.LoadS
	ro.Targets = w.TargetPackages()

	re, err := regexp.Compile(*runRe)
	if err != nil {
		fmt.Fprintln(os.Stderr, "symgo:", err)
		return 2
	}
	var hs []*ssa.Function
	for name, m := range w.Main.Members {
		if f, ok := m.(*ssa.Function); ok && re.MatchString(name) && f.Signature.Params().Len() == 0 {
			hs = append(hs, f)
		}
	}
	sort.Slice(hs, func(a, b int) bool { return hs[a].Name() < hs[b].Name() })
	if len(hs) == 0 {
		fmt.Fprintln(os.Stderr, "symgo: no harness matches", *runRe)
		return finish(2)
	}
	opt := interp.Options{MaxSteps: *steps, MaxDepth: *depth, MaxPaths: *maxPaths, Workers: *workers,
		SolverMS: *solverMS, Samples: *samples, SolverLog: *smtLog, Verbose: *verbose, StopOnViol: *stopOnViol, BoundIsViolation: *boundViol, PathSeconds: *pathSec}
	for _, o := range strings.Split(*oracle, ",") {
		switch o {
		case "maporder":
			opt.Oracle.MapOrder = true
			opt.Oracle.MapOrderEvents = *mapEvents
			opt.Oracle.MapOrderFrom = *mapFrom
			opt.Oracle.MapOrderMode = *mapMode
		case "capacity":
			opt.Oracle.Capacity = true
		}
	}
	code := 0
	for _, h := range hs {
		if *timeout > 0 {
			opt.Deadline = time.Now().Add(time.Duration(*timeout) * time.Second)
		}
		r := w.Explore(h, opt)
		ro.Harnesses = append(ro.Harnesses, r)
		if *verbose {
			fmt.Fprintf(os.Stderr, "%s: paths=%d status=%v oblig=%d/%d queries=%d viol=%d wall=%.1fs\n",
				r.Harness, r.Paths, r.Status, r.Discharged, r.Obligations, r.Queries, len(r.Violations), r.WallS)
		}
		if len(r.Violations) > 0 {
			code = 1
		}
	}
	return finish(code)
}
