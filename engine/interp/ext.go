package interp

// The boundary to code outside the target modules.  Nothing here is
// interpreted std code: each function is a native stand-in that follows the
// documented contract and works on symbolic values (forking where needed).
// Every external used by a run is reported in the evidence.

import (
	"fmt"
	"go/token"
	"go/types"
	"reflect"
	"strconv"
	"strings"
	"unsafe"

	"golang.org/x/tools/go/ssa"
)

type externalFn func(fr *frame, args []value) value

var externals = map[string]externalFn{}

func init() {
	for k, v := range map[string]externalFn{
		"fmt.Sprintf":                             extSprintf,
		"fmt.Printf":                              extPrintf,
		"fmt.Println":                             extPrintln,
		"fmt.Print":                               extPrint,
		"fmt.Sprint":                              extSprint,
		"fmt.Sprintln":                            extSprintln,
		"fmt.Errorf":                              extErrorf,
		"fmt.Fprintf":                             extFprintf,
		"fmt.Fprintln":                            extFprintln,
		"fmt.Fprint":                              extFprint,
		"os.ReadFile":                             extReadFile,
		"os.WriteFile":                            extWriteFile,
		"os.Exit":                                 extExit,
		"os.IsNotExist":                           extIsNotExist,
		"os.OpenFile":                             extOpenFile,
		"os.Create":                               extCreate,
		"(*os.File).WriteString":                  extFileWriteString,
		"(*os.File).Write":                        extFileWrite,
		"(*os.File).Close":                        extFileClose,
		"(*os.File).Sync":                         extFileSync,
		"errors.Is":                               extErrorsIs,
		"(*bytes.Buffer).WriteString":             extBufWriteString,
		"(*bytes.Buffer).WriteByte":               extBufWriteByte,
		"(*bytes.Buffer).WriteRune":               extBufWriteRune,
		"(*bytes.Buffer).String":                  extBufString,
		"(*bytes.Buffer).Len":                     extBufLen,
		"(*bytes.Buffer).Reset":                   extBufReset,
		"(*strings.Builder).Reset":                extBufReset,
		"(*strings.Builder).Write":                extBufWrite,
		"(*bytes.Buffer).Write":                   extBufWrite,
		"maps.clone":                              extMapsClone,
		"(*strings.Builder).WriteString":          extBufWriteString,
		"(*strings.Builder).WriteByte":            extBufWriteByte,
		"(*strings.Builder).WriteRune":            extBufWriteRune,
		"(*strings.Builder).String":               extBufString,
		"(*strings.Builder).Len":                  extBufLen,
		"(*strings.Builder).Grow":                 func(fr *frame, args []value) value { return nil },
		"(*bytes.Buffer).Grow":                    func(fr *frame, args []value) value { return nil },
		"strings.Join":                            extStringsJoin,
		"reflect.ValueOf":                         extReflectValueOf,
		"reflect.TypeOf":                          extReflectTypeOf,
		"(*reflect.rtype).Comparable":             extRtypeComparable,
		"(*reflect.rtype).Kind":                   extRtypeKind,
		"(*reflect.rtype).String":                 extRtypeString,
		"(reflect.Value).Kind":                    extReflectKind,
		"(reflect.Value).Int":                     extReflectInt,
		"(reflect.Value).Uint":                    extReflectUint,
		"(reflect.Value).Float":                   extReflectFloat,
		"(reflect.Value).String":                  extReflectString,
		"(reflect.Value).Bool":                    extReflectBool,
		"(reflect.Value).Pointer":                 extReflectPointer,
		"internal/reflectlite.ValueOf":            extReflectValueOf,
		"(internal/reflectlite.Value).Len":        extReflectLen,
		"internal/reflectlite.Swapper":            extReflectSwapper,
		"reflect.Swapper":                         extReflectSwapper,
		"(reflect.Value).Len":                     extReflectLen,
		"(reflect.Value).Cap":                     extReflectCap,
		"(reflect.Value).IsNil":                   extReflectIsNil,
		"github.com/google/go-cmp/cmp.Equal":      extCmpEqual,
		"github.com/google/go-cmp/cmp.Exporter":   extCmpExporter,
		"github.com/google/go-cmp/cmp.Comparer":   extCmpComparer,
		"github.com/google/go-cmp/cmp.Ignore":     extCmpIgnore,
		"github.com/google/go-cmp/cmp.FilterPath": extCmpFilterPath,
		"github.com/google/go-cmp/cmp/cmpopts.EquateEmpty": func(fr *frame, args []value) value {
			return iface{t: types.Typ[types.Int], v: cmpOpt{kind: "equate-empty"}}
		},
		"internal/bytealg.IndexByteString":          extIndexByteString,
		"internal/bytealg.IndexByte":                bytesAsString(extIndexByteString, 0),
		"internal/bytealg.Count":                    bytesAsString(extCountString, 0),
		"internal/bytealg.Compare":                  bytesAsString(extCompareString, 0, 1),
		"internal/bytealg.CompareString":            extCompareString,
		"internal/bytealg.abigen_runtime_cmpstring": extCompareString,
		"strings.Compare":                           extCompareString,
		"bytes.Compare":                             bytesAsString(extCompareString, 0, 1),
		"bytes.Index":                               bytesAsString(extStringsIndex, 0, 1),
		"bytes.Contains":                            bytesAsString(extStringsContains, 0, 1),
		"bytes.IndexByte":                           bytesAsString(extIndexByteString, 0),
		"bytes.Count":                               bytesAsString(extStringsCount, 0, 1),
		"internal/bytealg.CountString":              extCountString,
		"strings.Index":                             extStringsIndex,
		"strings.IndexByte":                         extIndexByteString,
		"strings.Count":                             extStringsCount,
		"strings.LastIndex": func(fr *frame, args []value) value {
			i := fr.i
			s, sep := args[0], args[1]
			n, m := strLen(s), strLen(sep)
			for k := n - m; k >= 0; k-- {
				if i.ps.decide(i.strEq(i.strSlice(s, k, k+m), sep)) {
					return k
				}
			}
			return -1
		},
		"strings.Contains":                   extStringsContains,
		"strings.Repeat":                     extStringsRepeat,
		"strconv.Itoa":                       extItoa,
		"strconv.FormatInt":                  extFormatInt,
		"strconv.FormatUint":                 extFormatInt,
		"strconv.Atoi":                       extAtoi,
		"unicode/utf8.RuneCountInString":     extRuneCountInString,
		"unicode/utf8.EncodeRune":            nil,
		"unicode/utf8.AppendRune":            extAppendRune,
		"runtime.GC":                         func(fr *frame, args []value) value { return nil },
		"(runtime.errorString).Error":        func(fr *frame, args []value) value { return args[0] },
		"(runtime.errorString).RuntimeError": func(fr *frame, args []value) value { return nil },
	} {
		if v != nil {
			externals[k] = v
		}
	}
}

// external resolves the stand-in (if any) for fn; memoised per function.
func (w *World) external(fn *ssa.Function) externalFn {
	w.extMu.RLock()
	if e, ok := w.extMemo[fn]; ok {
		w.extMu.RUnlock()
		return e
	}
	if w.extNone[fn] {
		w.extMu.RUnlock()
		return nil
	}
	w.extMu.RUnlock()

	var e externalFn
	origin := fn
	if o := fn.Origin(); o != nil {
		origin = o
	}
	name := origin.String()
	switch {
	case fn.Pkg == w.Main && strings.HasPrefix(fn.Name(), "verif") && !strings.HasPrefix(fn.Name(), "verifModel_") && apiFuncs[origin.Name()] != nil:
		e = apiFuncs[origin.Name()]
	case fn.Pkg == w.Main && w.overrides[fn.Name()] != nil:
		// harness-provided replacement (verifOverride_<name>), active only
		// while the harness has enabled overrides on this path
		ov := w.overrides[fn.Name()]
		orig := fn
		e = func(fr *frame, args []value) value {
			if !fr.i.ps.overridesOn {
				return callSSABody(fr.i, fr.caller, orig, args)
			}
			return callSSA(fr.i, fr.caller, ov.Pos(), ov, args, nil)
		}
	case fn.Name() == "init" && fn.Pkg != nil && !w.target[fn.Pkg] && fn.Synthetic != "":
		e = func(fr *frame, args []value) value { return nil }
	case externals[name] != nil:
		e = externals[name]
	default:
		mname := "verifModel_" + strings.NewReplacer(".", "_", "/", "_", "(", "", ")", "", "*", "").Replace(name)
		if m := w.models[mname]; m != nil {
			e = func(fr *frame, args []value) value {
				return callSSA(fr.i, fr.caller, m.Pos(), m, args, nil)
			}
		}
	}
	w.extMu.Lock()
	if e != nil {
		w.extMemo[fn] = e
	} else {
		w.extNone[fn] = true
	}
	w.extMu.Unlock()
	return e
}

// ---------------------------------------------------------------- fmt

func (i *interpreter) appendStr(out []*Term, s value) []*Term {
	switch x := s.(type) {
	case string:
		for k := 0; k < len(x); k++ {
			out = append(out, i.ps.tf.bv(uint64(x[k]), 8))
		}
	case symStr:
		out = append(out, x.b...)
	default:
		panic(fmt.Sprintf("appendStr: %T", s))
	}
	return out
}

func (i *interpreter) lit(out []*Term, s string) []*Term { return i.appendStr(out, s) }

// callMethod invokes method name() string on a value of dynamic type t, if present.
func (i *interpreter) stringerOf(fr *frame, t types.Type, v value) (value, bool) {
	if t == nil {
		return nil, false
	}
	if types.Identical(t, i.runtimeErrorString) {
		return v, true
	}
	for _, name := range []string{"Error", "String"} {
		sel := i.prog.MethodSets.MethodSet(t).Lookup(nil, name)
		if sel == nil {
			continue
		}
		sig := sel.Type().(*types.Signature)
		if sig.Params().Len() != 0 || sig.Results().Len() != 1 {
			continue
		}
		if b, ok := sig.Results().At(0).Type().Underlying().(*types.Basic); !ok || b.Kind() != types.String {
			continue
		}
		m := i.prog.MethodValue(sel)
		if m == nil {
			continue
		}
		return call(i, fr, m.Pos(), m, []value{v}), true
	}
	return nil, false
}

func typeName(t types.Type) string {
	if t == nil {
		return "<nil>"
	}
	return types.TypeString(t, func(p *types.Package) string { return p.Name() })
}

// fmtOperand renders one operand for verb v (one of s d v t f q c x).
func (i *interpreter) fmtOperand(fr *frame, out []*Term, verb byte, arg value, top bool) []*Term {
	a, ok := arg.(iface)
	if !ok {
		panic(fmt.Sprintf("fmtOperand: operand is %T", arg))
	}
	if a.t == nil {
		if verb == 'v' {
			return i.lit(out, "<nil>")
		}
		return i.lit(out, "%!"+string(verb)+"(<nil>)")
	}
	return i.fmtValue(fr, out, verb, a.t, a.v, 0)
}

func (i *interpreter) badVerb(fr *frame, out []*Term, verb byte, t types.Type, v value) []*Term {
	out = i.lit(out, "%!"+string(verb)+"("+typeName(t)+"=")
	out = i.fmtValue(fr, out, 'v', t, v, 1)
	return i.lit(out, ")")
}

// %+v: field names in structs, at every depth
func (i *interpreter) fmtValuePlus(fr *frame, out []*Term, t types.Type, v value) []*Term {
	i.fmtPlus = true
	defer func() { i.fmtPlus = false }()
	return i.fmtValue(fr, out, 'v', t, v, 1)
}

func (i *interpreter) fmtValue(fr *frame, out []*Term, verb byte, t types.Type, v value, depth int) []*Term {
	if verb == 'v' || verb == 's' || verb == 'q' {
		if depth < 8 {
			if s, ok := i.stringerOf(fr, t, v); ok {
				if verb == 'q' {
					return i.lit(out, strconv.Quote(i.concreteString(s, "%q")))
				}
				return i.appendStr(out, s)
			}
		}
	}
	switch x := v.(type) {
	case bool, symBool:
		if verb != 'v' && verb != 't' {
			return i.badVerb(fr, out, verb, t, v)
		}
		if i.asBool(x) {
			return i.lit(out, "true")
		}
		return i.lit(out, "false")
	case symInt, int, int8, int16, int32, int64, uint, uint8, uint16, uint32, uint64, uintptr:
		switch verb {
		case 'v', 'd':
			return i.appendStr(out, i.itoa(x))
		case 'c':
			return i.appendStr(out, conv(i, types.Typ[types.String], types.Typ[types.Int32], conv(i, types.Typ[types.Int32], t, x)))
		case 'x':
			if !isSym(x) {
				tt, k := i.intTerm(x)
				if kindSigned(k) {
					return i.lit(out, strconv.FormatInt(sext(tt.val, tt.w), 16))
				}
				return i.lit(out, strconv.FormatUint(tt.val, 16))
			}
			panic(pathAbort{"unsupported", "%x of symbolic int"})
		}
		return i.badVerb(fr, out, verb, t, v)
	case float32:
		return i.fmtFloat(fr, out, verb, t, v, float64(x), 32)
	case float64:
		return i.fmtFloat(fr, out, verb, t, v, x, 64)
	case string, symStr:
		switch verb {
		case 'v', 's':
			return i.appendStr(out, x)
		case 'q':
			return i.lit(out, strconv.Quote(i.concreteString(x, "%q")))
		}
		return i.badVerb(fr, out, verb, t, v)
	case structure:
		st, ok := t.Underlying().(*types.Struct)
		if !ok {
			return i.lit(out, "{?}")
		}
		if verb != 'v' && verb != 's' && verb != 'd' {
			return i.badVerb(fr, out, verb, t, v)
		}
		out = i.lit(out, "{")
		for k := range x {
			if k > 0 {
				out = i.lit(out, " ")
			}
			ft := st.Field(k).Type()
			if i.fmtPlus {
				out = i.lit(out, st.Field(k).Name()+":")
			}
			if fi, ok := x[k].(iface); ok {
				if fi.t == nil {
					out = i.lit(out, "<nil>")
				} else {
					out = i.fmtValue(fr, out, verb, fi.t, fi.v, depth+1)
				}
			} else {
				out = i.fmtValue(fr, out, verb, ft, x[k], depth+1)
			}
		}
		return i.lit(out, "}")
	case []value:
		var et types.Type
		if sl, ok := t.Underlying().(*types.Slice); ok {
			et = sl.Elem()
		}
		out = i.lit(out, "[")
		for k := range x {
			if k > 0 {
				out = i.lit(out, " ")
			}
			if fi, ok := x[k].(iface); ok {
				if fi.t == nil {
					out = i.lit(out, "<nil>")
				} else {
					out = i.fmtValue(fr, out, verb, fi.t, fi.v, depth+1)
				}
			} else {
				out = i.fmtValue(fr, out, verb, et, x[k], depth+1)
			}
		}
		return i.lit(out, "]")
	case array:
		et := t.Underlying().(*types.Array).Elem()
		out = i.lit(out, "[")
		for k := range x {
			if k > 0 {
				out = i.lit(out, " ")
			}
			out = i.fmtValue(fr, out, verb, et, x[k], depth+1)
		}
		return i.lit(out, "]")
	case iface:
		if x.t == nil {
			return i.lit(out, "<nil>")
		}
		return i.fmtValue(fr, out, verb, x.t, x.v, depth+1)
	case *value:
		if x == nil {
			return i.lit(out, "<nil>")
		}
		if depth == 0 {
			if _, ok := deref(t).Underlying().(*types.Struct); ok {
				out = i.lit(out, "&")
				return i.fmtValue(fr, out, verb, deref(t), *x, depth+1)
			}
		}
		return i.lit(out, "0xc000012345")
	case *omap:
		mt, _ := t.Underlying().(*types.Map)
		out = i.lit(out, "map[")
		if x != nil && mt != nil {
			// fmt sorts map keys; only concrete basic keys are supported
			idx := make([]int, len(x.keys))
			for k := range idx {
				idx[k] = k
			}
			for a := 0; a < len(idx); a++ {
				for b := a + 1; b < len(idx); b++ {
					if lessKey(x.keys[idx[b]], x.keys[idx[a]]) {
						idx[a], idx[b] = idx[b], idx[a]
					}
				}
			}
			for n, k := range idx {
				if n > 0 {
					out = i.lit(out, " ")
				}
				out = i.fmtValue(fr, out, verb, mt.Key(), x.keys[k], depth+1)
				out = i.lit(out, ":")
				out = i.fmtValue(fr, out, verb, mt.Elem(), x.vals[k], depth+1)
			}
		}
		return i.lit(out, "]")
	case *ssa.Function, *closure:
		return i.lit(out, "0x4a5b60")
	case nil:
		return i.lit(out, "<nil>")
	}
	panic(pathAbort{"unsupported", fmt.Sprintf("fmt of %T", v)})
}

func lessKey(a, b value) bool {
	switch x := a.(type) {
	case string:
		y, ok := b.(string)
		return ok && x < y
	case int:
		y, ok := b.(int)
		return ok && x < y
	}
	if isSym(a) || isSym(b) {
		panic(pathAbort{"unsupported", "fmt of map with symbolic keys"})
	}
	return false
}

func (i *interpreter) fmtFloat(fr *frame, out []*Term, verb byte, t types.Type, v value, f float64, bits int) []*Term {
	switch verb {
	case 'v':
		return i.lit(out, strconv.FormatFloat(f, 'g', -1, bits))
	case 'f':
		return i.lit(out, strconv.FormatFloat(f, 'f', 6, bits))
	}
	return i.badVerb(fr, out, verb, t, v)
}

// sprintf implements the subset of fmt's verb grammar without flags.
func (i *interpreter) sprintf(fr *frame, format value, args []value) value {
	tf := i.ps.tf
	fb := i.strTerms(format)
	out := make([]*Term, 0, len(fb)+16)
	argi := 0
	for k := 0; k < len(fb); {
		b := fb[k]
		if !i.ps.decide(tf.cmp(opEq, b, tf.bv('%', 8))) {
			out = append(out, b)
			k++
			continue
		}
		k++
		if k >= len(fb) {
			out = i.lit(out, "%!(NOVERB)")
			break
		}
		vb := fb[k]
		k++
		const known = "%sdvtfqcxT"
		verb := byte(0)
		if vb.isConst() {
			verb = byte(vb.val)
		} else {
			conds := make([]*Term, 0, len(known)+1)
			anyc := tf.ff
			for n := 0; n < len(known); n++ {
				c := tf.cmp(opEq, vb, tf.bv(uint64(known[n]), 8))
				conds = append(conds, c)
				anyc = tf.or(anyc, c)
			}
			conds = append(conds, tf.not(anyc))
			o := i.ps.decideN(conds)
			if o < len(known) {
				verb = known[o]
			} else {
				// some other byte: flags/width/unknown verbs
				isFlag := tf.ff
				for _, fc := range []byte("+-# 0123456789.*[") {
					isFlag = tf.or(isFlag, tf.cmp(opEq, vb, tf.bv(uint64(fc), 8)))
				}
				if i.ps.decide(isFlag) {
					panic(pathAbort{"unsupported", "Sprintf flags/width in symbolic format"})
				}
				if !i.ps.decide(tf.cmp(opULt, vb, tf.bv(0x80, 8))) {
					panic(pathAbort{"unsupported", "Sprintf non-ASCII verb in symbolic format"})
				}
				// unknown verb byte vb
				out = i.lit(out, "%!")
				out = append(out, vb)
				if argi >= len(args) {
					out = i.lit(out, "(MISSING)")
				} else {
					a := args[argi].(iface)
					argi++
					if a.t == nil {
						out = i.lit(out, "(<nil>)")
					} else {
						out = i.lit(out, "("+typeName(a.t)+"=")
						out = i.fmtValue(fr, out, 'v', a.t, a.v, 1)
						out = i.lit(out, ")")
					}
				}
				continue
			}
		}
		switch {
		case verb == '%':
			out = i.lit(out, "%")
		case verb == 'T':
			if argi >= len(args) {
				out = i.lit(out, "%!T(MISSING)")
			} else {
				if a := args[argi].(iface); a.t == nil {
					out = i.lit(out, "<nil>")
				} else {
					out = i.lit(out, typeName(a.t))
				}
				argi++
			}
		case strings.IndexByte("sdvtfqcx", verb) >= 0:
			if argi >= len(args) {
				out = i.lit(out, "%!"+string(verb)+"(MISSING)")
			} else {
				out = i.fmtOperand(fr, out, verb, args[argi], true)
				argi++
			}
		case strings.IndexByte("+-# 0123456789.*[", verb) >= 0:
			// concrete flags and width: [-0+]* digits verb
			minus, zero, plus := false, false, false
			width := 0
			c := verb
			next := func() {
				if k >= len(fb) || !fb[k].isConst() {
					panic(pathAbort{"unsupported", "Sprintf flags/width followed by a symbolic or missing byte"})
				}
				c = byte(fb[k].val)
				k++
			}
			for c == '-' || c == '0' || c == '+' {
				switch c {
				case '-':
					minus = true
				case '0':
					zero = true
				case '+':
					plus = true
				}
				next()
			}
			for c >= '0' && c <= '9' {
				width = width*10 + int(c-'0')
				next()
			}
			if strings.IndexByte("sdvtqcx", c) < 0 || (plus && c != 'd' && c != 'v') || width > 64 {
				panic(pathAbort{"unsupported", "Sprintf flags/width/precision: %…" + string(c)})
			}
			if argi >= len(args) {
				out = i.lit(out, "%!"+string(c)+"(MISSING)")
				break
			}
			var tmp []*Term
			if plus && c == 'v' {
				a := args[argi].(iface)
				if a.t == nil {
					tmp = i.lit(nil, "<nil>")
				} else {
					tmp = i.fmtValuePlus(fr, nil, a.t, a.v)
				}
			} else {
				tmp = i.fmtOperand(fr, nil, c, args[argi], true)
			}
			argi++
			for _, t := range tmp {
				if !t.isConst() && width > 0 {
					// width counts runes: symbolic bytes must be ASCII
					if !i.ps.decide(tf.cmp(opULt, t, tf.bv(0x80, 8))) {
						panic(pathAbort{"unsupported", "Sprintf width over symbolic non-ASCII bytes"})
					}
				} else if t.isConst() && t.val >= 0x80 && width > 0 {
					panic(pathAbort{"unsupported", "Sprintf width over non-ASCII text"})
				}
			}
			neg := len(tmp) > 0 && tmp[0].isConst() && tmp[0].val == '-'
			if plus && c == 'd' && !neg {
				tmp = append(i.lit(nil, "+"), tmp...)
				neg = true // a sign is in front
			}
			switch {
			case len(tmp) >= width:
				out = append(out, tmp...)
			case minus:
				out = append(out, tmp...)
				for n := len(tmp); n < width; n++ {
					out = append(out, tf.bv(' ', 8))
				}
			case zero && (c == 'd' || c == 'x'):
				if neg {
					out = append(out, tmp[0])
					tmp = tmp[1:]
					width--
				}
				for n := len(tmp); n < width; n++ {
					out = append(out, tf.bv('0', 8))
				}
				out = append(out, tmp...)
			default:
				for n := len(tmp); n < width; n++ {
					out = append(out, tf.bv(' ', 8))
				}
				out = append(out, tmp...)
			}
		case verb >= 0x80:
			panic(pathAbort{"unsupported", "Sprintf non-ASCII verb"})
		default:
			if argi >= len(args) {
				out = i.lit(out, "%!"+string(verb)+"(MISSING)")
			} else {
				a := args[argi].(iface)
				argi++
				if a.t == nil {
					out = i.lit(out, "%!"+string(verb)+"(<nil>)")
				} else {
					out = i.badVerb(fr, out, verb, a.t, a.v)
				}
			}
		}
	}
	if argi < len(args) {
		out = i.lit(out, "%!(EXTRA ")
		for n := argi; n < len(args); n++ {
			if n > argi {
				out = i.lit(out, ", ")
			}
			a := args[n].(iface)
			if a.t == nil {
				out = i.lit(out, "<nil>")
			} else {
				out = i.lit(out, typeName(a.t)+"=")
				out = i.fmtValue(fr, out, 'v', a.t, a.v, 1)
			}
		}
		out = i.lit(out, ")")
	}
	return mkStr(out)
}

func variadic(v value) []value {
	if v == nil {
		return nil
	}
	return v.([]value)
}

func extSprintf(fr *frame, args []value) value {
	return fr.i.sprintf(fr, args[0], variadic(args[1]))
}

func extPrintf(fr *frame, args []value) value {
	s := fr.i.sprintf(fr, args[0], variadic(args[1]))
	fr.i.ps.stdout = append(fr.i.ps.stdout, s)
	return tuple{strLen(s), iface{}}
}

func (i *interpreter) sprint(fr *frame, args []value, ln bool) value {
	var out []*Term
	prevString := true
	for k, a := range args {
		ai := a.(iface)
		_, isStr := ai.v.(string)
		if _, ok := ai.v.(symStr); ok {
			isStr = true
		}
		if k > 0 && (ln || (!isStr && !prevString)) {
			out = i.lit(out, " ")
		}
		if ai.t == nil {
			out = i.lit(out, "<nil>")
		} else {
			out = i.fmtValue(fr, out, 'v', ai.t, ai.v, 0)
		}
		prevString = isStr
	}
	if ln {
		out = i.lit(out, "\n")
	}
	return mkStr(out)
}

func extSprint(fr *frame, args []value) value   { return fr.i.sprint(fr, variadic(args[0]), false) }
func extSprintln(fr *frame, args []value) value { return fr.i.sprint(fr, variadic(args[0]), true) }
func extPrintln(fr *frame, args []value) value {
	s := fr.i.sprint(fr, variadic(args[0]), true)
	fr.i.ps.stdout = append(fr.i.ps.stdout, s)
	return tuple{strLen(s), iface{}}
}
func extPrint(fr *frame, args []value) value {
	s := fr.i.sprint(fr, variadic(args[0]), false)
	fr.i.ps.stdout = append(fr.i.ps.stdout, s)
	return tuple{strLen(s), iface{}}
}

// errors.Is: identity along the Unwrap chain; the virtual file system's
// errors match fs.ErrNotExist / ErrPermission / ErrExist by their text.
func extErrorsIs(fr *frame, args []value) value {
	i := fr.i
	err, _ := args[0].(iface)
	target, _ := args[1].(iface)
	sentinel := func(name string) (iface, bool) {
		if fp := i.prog.ImportedPackage("io/fs"); fp != nil {
			if g := fp.Var(name); g != nil {
				if v, ok := (*i.global(g)).(iface); ok && v.t != nil {
					return v, true
				}
			}
		}
		return iface{}, false
	}
	same := func(a, b iface) bool {
		if a.t == nil || b.t == nil || !types.Identical(a.t, b.t) {
			return false
		}
		pa, oka := a.v.(*value)
		pb, okb := b.v.(*value)
		if oka && okb {
			return pa == pb
		}
		if types.Comparable(a.t) && !containsSym(a.v) && !containsSym(b.v) {
			return fr.i.asBool(binop(fr.i, token.EQL, a.t, a.v, b.v))
		}
		return false
	}
	for depth := 0; depth < 16; depth++ {
		if err.t == nil {
			return false
		}
		if target.t != nil && same(err, target) {
			return true
		}
		if err.t == i.runtimeErrorString {
			// an error made by the virtual file system
			msg, _ := err.v.(string)
			for text, name := range map[string]string{"no such file or directory": "ErrNotExist", "permission denied": "ErrPermission", "file exists": "ErrExist"} {
				if s, ok := sentinel(name); ok && same(s, target) {
					return strings.Contains(msg, text)
				}
			}
			return false
		}
		sel := i.prog.MethodSets.MethodSet(err.t).Lookup(nil, "Unwrap")
		if sel == nil {
			return false
		}
		m := i.prog.MethodValue(sel)
		if m == nil || m.Signature.Results().Len() != 1 {
			panic(pathAbort{"unsupported", "errors.Is over " + err.t.String()})
		}
		next, ok := callSSA(i, fr, token.NoPos, m, []value{err.v}, nil).(iface)
		if !ok {
			panic(pathAbort{"unsupported", "errors.Is: Unwrap() []error"})
		}
		err = next
	}
	panic(pathAbort{"unsupported", "errors.Is: Unwrap chain too long"})
}

// fmt.Errorf: an *errors.errorString (through the real errors.New) holding the formatted text
func extErrorf(fr *frame, args []value) value {
	if f, ok := args[0].(string); ok && strings.Contains(f, "%w") {
		panic(pathAbort{"unsupported", "fmt.Errorf with %w"})
	}
	s := fr.i.sprintf(fr, args[0], variadic(args[1]))
	if ep := fr.i.prog.ImportedPackage("errors"); ep != nil && ep.Func("New") != nil {
		return callSSA(fr.i, fr, token.NoPos, ep.Func("New"), []value{s}, nil)
	}
	return iface{t: fr.i.runtimeErrorString, v: s}
}

// writeTo: fmt.Fprint* on the writers the engine knows (virtual files and
// standard streams, bytes.Buffer, strings.Builder), else through the
// writer's own Write method.
func (i *interpreter) writeTo(fr *frame, w value, s value) value {
	wi, _ := w.(iface)
	if wi.t == nil {
		panic(rtPanic("runtime error: invalid memory address or nil pointer dereference"))
	}
	if p, ok := wi.v.(*value); ok && p != nil {
		switch x := (*p).(type) {
		case *osFile:
			return i.fileWrite(x, s)
		case structure:
			if n, ok := deref(wi.t).(*types.Named); ok && n.Obj().Pkg() != nil {
				if q := n.Obj().Pkg().Path() + "." + n.Obj().Name(); q == "bytes.Buffer" || q == "strings.Builder" {
					return extBufWriteString(fr, []value{wi.v, s})
				}
			}
		}
	}
	if sel := i.prog.MethodSets.MethodSet(wi.t).Lookup(nil, "Write"); sel != nil {
		if m := i.prog.MethodValue(sel); m != nil {
			data := conv(i, types.NewSlice(types.Typ[types.Byte]), types.Typ[types.String], s)
			return callSSA(i, fr, token.NoPos, m, []value{wi.v, data}, nil)
		}
	}
	panic(pathAbort{"unsupported", "fmt.Fprint* on " + wi.t.String()})
}

func extFprintf(fr *frame, args []value) value {
	return fr.i.writeTo(fr, args[0], fr.i.sprintf(fr, args[1], variadic(args[2])))
}
func extFprintln(fr *frame, args []value) value {
	return fr.i.writeTo(fr, args[0], fr.i.sprint(fr, variadic(args[1]), true))
}
func extFprint(fr *frame, args []value) value {
	return fr.i.writeTo(fr, args[0], fr.i.sprint(fr, variadic(args[1]), false))
}

// ---------------------------------------------------------------- os

func (i *interpreter) errValue(msg string) value {
	// an opaque non-nil error: *errors.errorString is not loaded everywhere,
	// use runtime.errorString (implements error) as the dynamic type.
	return iface{t: i.runtimeErrorString, v: msg}
}

func bytesOfString(i *interpreter, s value) []value {
	bs := i.strTerms(s)
	r := make([]value, len(bs))
	for k, b := range bs {
		r[k] = mkInt(b, types.Uint8)
	}
	return r
}

func extReadFile(fr *frame, args []value) value {
	i := fr.i
	name := args[0]
	i.ps.reads = append(i.ps.reads, name)
	if i.flagged(i.ps.failRead, name) {
		return tuple{[]value(nil), i.errValue("read " + i.showStr(name) + ": is a directory")}
	}
	k := i.vfsFind(name)
	if k < 0 {
		return tuple{[]value(nil), i.errValue("open " + i.showStr(name) + ": no such file or directory")}
	}
	if _, bad := i.ps.vfs[k].data.(unreadable); bad {
		return tuple{[]value(nil), i.errValue("read " + i.showStr(name) + ": is a directory")}
	}
	return tuple{bytesOfString(i, i.ps.vfs[k].data), iface{}}
}

func extWriteFile(fr *frame, args []value) value {
	i := fr.i
	name := args[0]
	data := conv(i, types.Typ[types.String], types.NewSlice(types.Typ[types.Byte]), args[1])
	if i.flagged(i.ps.failWrite, name) {
		i.ps.writes = append(i.ps.writes, fsWrite{name, data, false})
		return i.errValue("open " + i.showStr(name) + ": permission denied")
	}
	i.ps.writes = append(i.ps.writes, fsWrite{name, data, true})
	i.vfsSet(name, data)
	return iface{}
}

// osFile: an open virtual file (the target of the *os.File the engine hands out).
// Writes go through to the virtual file system at the handle's offset, so a
// missing O_TRUNC / O_APPEND behaves as on a real file system.
type osFile struct {
	name   value
	off    int
	app    bool
	closed bool
	rec    int // index of this handle's record in ps.writes
	std    int // 1 stdout, 2 stderr: appends to the captured stream instead
}

func (i *interpreter) openFile(name value, flag int) value {
	const oWRONLY, oRDWR, oAPPEND, oCREATE, oEXCL, oTRUNC = 0x1, 0x2, 0x400, 0x40, 0x80, 0x200
	if flag&(oWRONLY|oRDWR) == 0 {
		panic(pathAbort{"unsupported", "os.OpenFile for reading (only os.ReadFile is modelled)"})
	}
	if i.flagged(i.ps.failWrite, name) {
		i.ps.writes = append(i.ps.writes, fsWrite{name, "", false})
		return tuple{(*value)(nil), i.errValue("open " + i.showStr(name) + ": permission denied")}
	}
	k := i.vfsFind(name)
	switch {
	case k < 0 && flag&oCREATE == 0:
		return tuple{(*value)(nil), i.errValue("open " + i.showStr(name) + ": no such file or directory")}
	case k >= 0 && flag&oCREATE != 0 && flag&oEXCL != 0:
		return tuple{(*value)(nil), i.errValue("open " + i.showStr(name) + ": file exists")}
	case k < 0:
		i.vfsSet(name, "")
	case flag&oTRUNC != 0:
		if _, bad := i.ps.vfs[k].data.(unreadable); bad {
			return tuple{(*value)(nil), i.errValue("open " + i.showStr(name) + ": is a directory")}
		}
		i.ps.vfs[k].data = ""
	default:
		if _, bad := i.ps.vfs[k].data.(unreadable); bad {
			return tuple{(*value)(nil), i.errValue("open " + i.showStr(name) + ": is a directory")}
		}
	}
	// creating / truncating is itself an observable write of the file
	k = i.vfsFind(name)
	i.ps.writes = append(i.ps.writes, fsWrite{name, i.ps.vfs[k].data, true})
	var cell value = &osFile{name: name, app: flag&oAPPEND != 0, rec: len(i.ps.writes) - 1}
	return tuple{&cell, iface{}}
}

func extOpenFile(fr *frame, args []value) value {
	flag, ok := args[1].(int)
	if !ok {
		panic(pathAbort{"unsupported", "os.OpenFile with a symbolic flag"})
	}
	return fr.i.openFile(args[0], flag)
}

func extCreate(fr *frame, args []value) value {
	return fr.i.openFile(args[0], 0x2|0x40|0x200)
}

func fileOf(args []value) *osFile {
	p, _ := args[0].(*value)
	if p == nil {
		panic(rtPanic("runtime error: invalid memory address or nil pointer dereference"))
	}
	f, ok := (*p).(*osFile)
	if !ok {
		panic(pathAbort{"unsupported", "*os.File not opened through the virtual file system"})
	}
	return f
}

func (i *interpreter) fileWrite(f *osFile, data value) value {
	n := strLen(data)
	if f.closed {
		return tuple{0, i.errValue("write " + i.showStr(f.name) + ": file already closed")}
	}
	switch f.std {
	case 1:
		i.ps.stdout = append(i.ps.stdout, data)
		return tuple{n, iface{}}
	case 2:
		i.ps.stderr = append(i.ps.stderr, i.showStr(data))
		return tuple{n, iface{}}
	}
	k := i.vfsFind(f.name)
	if k < 0 {
		panic(pathAbort{"unsupported", "write to a virtual file that disappeared"})
	}
	cur := i.ps.vfs[k].data
	cl := strLen(cur)
	if f.app {
		f.off = cl
	}
	if f.off > cl {
		panic(pathAbort{"unsupported", "write beyond the end of a virtual file"})
	}
	out := i.strConcat(i.strSlice(cur, 0, f.off), data)
	if f.off+n < cl {
		out = i.strConcat(out, i.strSlice(cur, f.off+n, cl))
	}
	f.off += n
	i.ps.vfs[k].data = out
	// one record per handle: it follows the file's content
	i.ps.writes[f.rec] = fsWrite{f.name, out, true}
	return tuple{n, iface{}}
}

func extFileWriteString(fr *frame, args []value) value {
	return fr.i.fileWrite(fileOf(args), args[1])
}

func extFileWrite(fr *frame, args []value) value {
	data := conv(fr.i, types.Typ[types.String], types.NewSlice(types.Typ[types.Byte]), args[1])
	return fr.i.fileWrite(fileOf(args), data)
}

func extFileSync(fr *frame, args []value) value {
	fileOf(args)
	return iface{}
}

func extFileClose(fr *frame, args []value) value {
	f := fileOf(args)
	if f.closed {
		return fr.i.errValue("close " + fr.i.showStr(f.name) + ": file already closed")
	}
	f.closed = true
	return iface{}
}

// unreadable marks a virtual file that exists but cannot be read.
type unreadable struct{}

// os.IsNotExist on the errors produced by the virtual file system
func extIsNotExist(fr *frame, args []value) value {
	e, ok := args[0].(iface)
	if !ok || e.t == nil {
		return false
	}
	msg, _ := e.v.(string)
	return strings.Contains(msg, "no such file or directory")
}

func extExit(fr *frame, args []value) value {
	panic(exitPanic(asInt64(args[0])))
}

// ---------------------------------------------------------------- bytes.Buffer / strings.Builder
// Both are modelled on their first field, which holds the []byte.

func bufCell(args []value) *value {
	p := args[0].(*value)
	if p == nil {
		panic(rtPanic("runtime error: invalid memory address or nil pointer dereference"))
	}
	st := (*p).(structure)
	// bytes.Buffer{buf, off, lastRead}; strings.Builder{addr, buf}
	if len(st) == 2 {
		return &st[1]
	}
	return &st[0]
}

func extBufWriteString(fr *frame, args []value) value {
	c := bufCell(args)
	cur, _ := (*c).([]value)
	*c = append(cur, bytesOfString(fr.i, args[1])...)
	return tuple{strLen(args[1]), iface{}}
}

func extBufWriteByte(fr *frame, args []value) value {
	c := bufCell(args)
	cur, _ := (*c).([]value)
	*c = append(cur, args[1])
	return iface{}
}

func extBufWriteRune(fr *frame, args []value) value {
	c := bufCell(args)
	cur, _ := (*c).([]value)
	s := conv(fr.i, types.Typ[types.String], types.Typ[types.Rune], args[1])
	*c = append(cur, bytesOfString(fr.i, s)...)
	return tuple{strLen(s), iface{}}
}

func extBufString(fr *frame, args []value) value {
	if args[0].(*value) == nil {
		return "<nil>"
	}
	c := bufCell(args)
	cur, _ := (*c).([]value)
	return conv(fr.i, types.Typ[types.String], types.NewSlice(types.Typ[types.Byte]), cur)
}

func extBufLen(fr *frame, args []value) value {
	c := bufCell(args)
	cur, _ := (*c).([]value)
	return len(cur)
}

func extBufWrite(fr *frame, args []value) value {
	c := bufCell(args)
	cur, _ := (*c).([]value)
	add, _ := args[1].([]value)
	*c = append(cur, copyVals(add)...)
	return tuple{len(add), iface{}}
}

// maps.clone (runtime linkname): a shallow copy of the map
func extMapsClone(fr *frame, args []value) value {
	a := args[0].(iface)
	m, ok := a.v.(*omap)
	if !ok {
		panic(pathAbort{"unsupported", "maps.clone of this map representation"})
	}
	if m == nil {
		return a
	}
	c := newOmap(m.kt)
	c.keys = append([]value(nil), m.keys...)
	c.vals = copyVals(m.vals)
	c.nsym = m.nsym
	for k, v := range m.idx {
		c.idx[k] = v
	}
	return iface{t: a.t, v: c}
}

// sync/atomic on a single thread: plain loads and stores
func atomicCell(args []value) *value {
	p, _ := args[0].(*value)
	if p == nil {
		panic(rtPanic("runtime error: invalid memory address or nil pointer dereference"))
	}
	return p
}

func init() {
	for _, ty := range []string{"Int32", "Int64", "Uint32", "Uint64", "Uintptr", "Pointer"} {
		externals["sync/atomic.Load"+ty] = func(fr *frame, args []value) value { return *atomicCell(args) }
		externals["sync/atomic.Store"+ty] = func(fr *frame, args []value) value { *atomicCell(args) = args[1]; return nil }
		externals["sync/atomic.Swap"+ty] = func(fr *frame, args []value) value {
			p := atomicCell(args)
			old := *p
			*p = args[1]
			return old
		}
		externals["sync/atomic.CompareAndSwap"+ty] = func(fr *frame, args []value) value {
			p := atomicCell(args)
			t := fr.fn.Signature.Params().At(1).Type()
			if fr.i.asBool(binop(fr.i, token.EQL, t, *p, args[1])) {
				*p = args[2]
				return true
			}
			return false
		}
		if ty != "Pointer" {
			externals["sync/atomic.Add"+ty] = func(fr *frame, args []value) value {
				p := atomicCell(args)
				t := fr.fn.Signature.Params().At(1).Type()
				*p = binop(fr.i, token.ADD, t, *p, args[1])
				return *p
			}
		}
	}
}

func extBufReset(fr *frame, args []value) value {
	c := bufCell(args)
	*c = []value(nil)
	return nil
}

// ---------------------------------------------------------------- reflect (contract model)

func reflectKind(t types.Type) reflect.Kind {
	switch t := t.Underlying().(type) {
	case *types.Basic:
		switch t.Kind() {
		case types.Bool:
			return reflect.Bool
		case types.Int:
			return reflect.Int
		case types.Int8:
			return reflect.Int8
		case types.Int16:
			return reflect.Int16
		case types.Int32:
			return reflect.Int32
		case types.Int64:
			return reflect.Int64
		case types.Uint:
			return reflect.Uint
		case types.Uint8:
			return reflect.Uint8
		case types.Uint16:
			return reflect.Uint16
		case types.Uint32:
			return reflect.Uint32
		case types.Uint64:
			return reflect.Uint64
		case types.Uintptr:
			return reflect.Uintptr
		case types.Float32:
			return reflect.Float32
		case types.Float64:
			return reflect.Float64
		case types.Complex64:
			return reflect.Complex64
		case types.Complex128:
			return reflect.Complex128
		case types.String:
			return reflect.String
		case types.UnsafePointer:
			return reflect.UnsafePointer
		}
	case *types.Array:
		return reflect.Array
	case *types.Chan:
		return reflect.Chan
	case *types.Signature:
		return reflect.Func
	case *types.Interface:
		return reflect.Interface
	case *types.Map:
		return reflect.Map
	case *types.Pointer:
		return reflect.Ptr
	case *types.Slice:
		return reflect.Slice
	case *types.Struct:
		return reflect.Struct
	}
	panic(fmt.Sprint("unexpected type: ", t))
}

// reflect.Value is boxed as its real 3-field struct {typ_, ptr, flag} with
// typ_ = rtype and ptr = the value.
// reflect.TypeOf returns a reflect.Type whose dynamic type is the real
// *reflect.rtype (so that method calls dispatch) boxed over an rtype value.
func extReflectTypeOf(fr *frame, args []value) value {
	a := args[0].(iface)
	if a.t == nil {
		return iface{}
	}
	rp := fr.i.prog.ImportedPackage("reflect")
	if rp == nil || rp.Type("rtype") == nil {
		panic(pathAbort{"unsupported", "reflect.TypeOf: reflect.rtype not loaded"})
	}
	return iface{t: types.NewPointer(rp.Type("rtype").Object().Type()), v: rtype{a.t}}
}

func extRtypeComparable(fr *frame, args []value) value {
	return types.Comparable(args[0].(rtype).t)
}

func extRtypeKind(fr *frame, args []value) value {
	return uint(reflectKind(args[0].(rtype).t))
}

func extRtypeString(fr *frame, args []value) value {
	return typeName(args[0].(rtype).t)
}

func extReflectValueOf(fr *frame, args []value) value {
	a := args[0].(iface)
	if a.t == nil {
		return structure{rtype{nil}, nil, uintptr(0)}
	}
	return structure{rtype{a.t}, a.v, uintptr(0)}
}

func rvParts(v value) (types.Type, value) {
	s := v.(structure)
	return s[0].(rtype).t, s[1]
}

func reflectPanic(method string, k reflect.Kind) string {
	return "reflect: call of reflect.Value." + method + " on " + k.String() + " Value"
}

func extReflectKind(fr *frame, args []value) value {
	t, _ := rvParts(args[0])
	if t == nil {
		return uint(reflect.Invalid)
	}
	return uint(reflectKind(t))
}

func extReflectInt(fr *frame, args []value) value {
	t, v := rvParts(args[0])
	if t == nil {
		panic(targetPanic{iface{fr.i.runtimeErrorString, "reflect: call of reflect.Value.Int on zero Value"}})
	}
	switch k := reflectKind(t); k {
	case reflect.Int, reflect.Int8, reflect.Int16, reflect.Int32, reflect.Int64:
		return conv(fr.i, types.Typ[types.Int64], t, v)
	default:
		panic(targetPanic{iface{fr.i.runtimeErrorString, reflectPanic("Int", k)}})
	}
}

func extReflectUint(fr *frame, args []value) value {
	t, v := rvParts(args[0])
	if t == nil {
		panic(targetPanic{iface{fr.i.runtimeErrorString, "reflect: call of reflect.Value.Uint on zero Value"}})
	}
	switch k := reflectKind(t); k {
	case reflect.Uint, reflect.Uint8, reflect.Uint16, reflect.Uint32, reflect.Uint64, reflect.Uintptr:
		return conv(fr.i, types.Typ[types.Uint64], t, v)
	default:
		panic(targetPanic{iface{fr.i.runtimeErrorString, reflectPanic("Uint", k)}})
	}
}

func extReflectFloat(fr *frame, args []value) value {
	t, v := rvParts(args[0])
	if t == nil {
		panic(targetPanic{iface{fr.i.runtimeErrorString, "reflect: call of reflect.Value.Float on zero Value"}})
	}
	switch k := reflectKind(t); k {
	case reflect.Float32:
		return float64(v.(float32))
	case reflect.Float64:
		return v.(float64)
	default:
		panic(targetPanic{iface{fr.i.runtimeErrorString, reflectPanic("Float", k)}})
	}
}

// Pointer of a slice: the address of element 0 of the backing array the
// engine really allocated, so two windows alias exactly when they do in Go.
var zeroBase [1]value

func extReflectPointer(fr *frame, args []value) value {
	t, v := rvParts(args[0])
	if t == nil {
		panic(targetPanic{iface{fr.i.runtimeErrorString, "reflect: call of reflect.Value.Pointer on zero Value"}})
	}
	switch k := reflectKind(t); k {
	case reflect.Slice:
		sl, ok := v.([]value)
		if !ok {
			panic(pathAbort{"unsupported", "reflect.Value.Pointer on this slice representation"})
		}
		if sl == nil {
			return uintptr(0)
		}
		if cap(sl) == 0 {
			return uintptr(unsafe.Pointer(&zeroBase[0]))
		}
		return uintptr(unsafe.Pointer(&sl[:1][0]))
	case reflect.Ptr:
		if p, ok := v.(*value); ok {
			return uintptr(unsafe.Pointer(p))
		}
	}
	panic(pathAbort{"unsupported", "reflect.Value.Pointer on " + reflectKind(t).String()})
}

// nativeFn: a function value implemented by the engine (the result of reflect.Swapper)
type nativeFn func(fr *frame, args []value) value

// reflect.Swapper / internal/reflectlite.Swapper: swaps two elements of the
// slice in place (value copies, like the real one); sort.Slice itself is
// interpreted from the real std source on top of it.
func extReflectSwapper(fr *frame, args []value) value {
	a := args[0].(iface)
	sl, ok := a.v.([]value)
	if a.t == nil || !ok {
		panic(pathAbort{"unsupported", "reflect.Swapper on a non-slice"})
	}
	return nativeFn(func(fr *frame, args []value) value {
		i, iok := args[0].(int)
		j, jok := args[1].(int)
		if !iok || !jok {
			panic(pathAbort{"unsupported", "reflect.Swapper closure with symbolic indices"})
		}
		if i < 0 || j < 0 || i >= len(sl) || j >= len(sl) {
			panic(rtPanic("reflect: slice index out of range"))
		}
		sl[i], sl[j] = sl[j], sl[i]
		return nil
	})
}

func extReflectLen(fr *frame, args []value) value {
	t, v := rvParts(args[0])
	if t != nil {
		switch x := v.(type) {
		case []value:
			return len(x)
		case string:
			return len(x)
		case array:
			return len(x)
		}
	}
	panic(pathAbort{"unsupported", "reflect.Value.Len on this value"})
}

func extReflectCap(fr *frame, args []value) value {
	t, v := rvParts(args[0])
	if t != nil {
		if x, ok := v.([]value); ok {
			return cap(x)
		}
	}
	panic(pathAbort{"unsupported", "reflect.Value.Cap on this value"})
}

func extReflectIsNil(fr *frame, args []value) value {
	t, v := rvParts(args[0])
	if t != nil {
		switch x := v.(type) {
		case []value:
			return x == nil
		case *value:
			return x == nil
		case iface:
			return x.t == nil
		}
	}
	panic(pathAbort{"unsupported", "reflect.Value.IsNil on this value"})
}

func extReflectBool(fr *frame, args []value) value {
	t, v := rvParts(args[0])
	if t == nil || reflectKind(t) != reflect.Bool {
		panic(targetPanic{iface{fr.i.runtimeErrorString, "reflect: call of reflect.Value.Bool on non-bool Value"}})
	}
	return v
}

func extReflectString(fr *frame, args []value) value {
	t, v := rvParts(args[0])
	if t == nil {
		return "<invalid Value>"
	}
	if reflectKind(t) == reflect.String {
		return v
	}
	return "<" + typeName(t) + " Value>"
}

// ---------------------------------------------------------------- go-cmp (contract model)

// cmpEqual follows the documented rules of cmp.Equal without options:
// identical dynamic types required; basic kinds by ==; structs field-wise
// and a panic on unexported fields; slices/maps nil-ness must agree and
// elements compare equal; pointers both nil or pointees equal; interfaces
// same dynamic type and equal values; funcs equal only if both nil.
func (i *interpreter) cmpEqual(fr *frame, t types.Type, x, y value, depth int) *Term {
	return i.cmpEqualO(fr, cmpOpts{}, t, x, y, depth)
}

// cmpOpts are the go-cmp options the model understands.
type cmpOpts struct {
	allowUnexported  bool // cmp.Exporter(func(reflect.Type) bool { return true }) / AllowUnexported on every type
	equateEmpty      bool // cmpopts.EquateEmpty()
	ignoreUnexported bool
	comparers        []cmpOpt // cmp.Comparer(func(T, T) bool)
	pathIgnores      []cmpOpt // cmp.FilterPath(pred, cmp.Ignore()): pred is run on a path ending in the struct field
}

// cmpOpt is the boxed marker value returned by the option constructors.
type cmpOpt struct {
	kind string
	fn   value      // comparer / filterpath: the function value
	pt   types.Type // comparer: its parameter type
	in   string     // filterpath: kind of the filtered option (only "ignore")
}

func (i *interpreter) cmpEqualO(fr *frame, o cmpOpts, t types.Type, x, y value, depth int) *Term {
	tf := i.ps.tf
	if depth > 64 {
		panic(pathAbort{"unsupported", "cmp.Equal recursion too deep"})
	}
	// options come first (go-cmp tryOptions): comparers whose parameter type
	// the node's type is assignable to, and EquateEmpty's filtered comparer on
	// two empty slices / maps; more than one applicable option is a panic
	if len(o.comparers) > 0 {
		var app []cmpOpt
		for _, c := range o.comparers {
			if types.AssignableTo(t, c.pt) {
				app = append(app, c)
			}
		}
		n := len(app)
		if o.equateEmpty {
			switch t.Underlying().(type) {
			case *types.Slice:
				xs, _ := x.([]value)
				ys, _ := y.([]value)
				if len(xs) == 0 && len(ys) == 0 {
					n++
				}
			case *types.Map:
				if x.(*omap).len() == 0 && y.(*omap).len() == 0 {
					n++
				}
			}
		}
		if n > 1 {
			panic(targetPanic{iface{i.runtimeErrorString, "ambiguous set of applicable options at " + typeName(t)}})
		}
		if len(app) == 1 {
			return i.boolTerm(call(i, fr, 0, app[0].fn, []value{x, y}))
		}
	}
	// Equal method: (T) Equal(T) bool or (T) Equal(I) bool
	if sel := i.prog.MethodSets.MethodSet(t).Lookup(nil, "Equal"); sel != nil {
		sig := sel.Type().(*types.Signature)
		if sig.Params().Len() == 1 && sig.Results().Len() == 1 && types.AssignableTo(t, sig.Params().At(0).Type()) {
			if b, ok := sig.Results().At(0).Type().Underlying().(*types.Basic); ok && b.Kind() == types.Bool {
				// go-cmp tryMethod: the type's own Equal decides, at any depth
				m := i.prog.MethodValue(sel)
				if m == nil {
					panic(pathAbort{"unsupported", "cmp.Equal on type with an abstract Equal method"})
				}
				recv, arg := x, y
				if _, isIface := sig.Params().At(0).Type().Underlying().(*types.Interface); isIface {
					arg = iface{t: t, v: y}
				}
				return i.boolTerm(callSSA(i, fr, token.NoPos, m, []value{recv, arg}, nil))
			}
		}
	}
	switch ut := t.Underlying().(type) {
	case *types.Basic:
		return i.eqTerm(t, x, y)
	case *types.Struct:
		xs, ys := x.(structure), y.(structure)
		r := tf.tt
		for k := 0; k < ut.NumFields(); k++ {
			f := ut.Field(k)
			if !f.Exported() && o.ignoreUnexported {
				continue
			}
			if len(o.pathIgnores) > 0 && i.pathIgnored(fr, o, t, f.Name(), k) {
				continue
			}
			if !f.Exported() && !o.allowUnexported {
				nm := typeName(t)
				panic(targetPanic{iface{i.runtimeErrorString, "cannot handle unexported field at {" + nm + "}." + f.Name() + ":\n\t\"" + typeNamePath(t) + "\"." + shortName(t) + "\nconsider using cmpopts.EquateComparable to compare comparable Go types"}})
			}
			r = tf.and(r, i.cmpEqualO(fr, o, f.Type(), xs[k], ys[k], depth+1))
		}
		return r
	case *types.Slice:
		xs, _ := x.([]value)
		ys, _ := y.([]value)
		if o.equateEmpty && len(xs) == 0 && len(ys) == 0 {
			return tf.tt
		}
		if (xs == nil) != (ys == nil) {
			return tf.ff
		}
		if len(xs) != len(ys) {
			return tf.ff
		}
		r := tf.tt
		for k := range xs {
			r = tf.and(r, i.cmpEqualO(fr, o, ut.Elem(), xs[k], ys[k], depth+1))
		}
		return r
	case *types.Array:
		xs, ys := x.(array), y.(array)
		r := tf.tt
		for k := range xs {
			r = tf.and(r, i.cmpEqualO(fr, o, ut.Elem(), xs[k], ys[k], depth+1))
		}
		return r
	case *types.Pointer:
		xp, yp := x.(*value), y.(*value)
		if xp == nil || yp == nil {
			return tf.boolc(xp == yp)
		}
		if xp == yp {
			return tf.tt
		}
		return i.cmpEqualO(fr, o, ut.Elem(), *xp, *yp, depth+1)
	case *types.Interface:
		xi, yi := x.(iface), y.(iface)
		if xi.t == nil || yi.t == nil {
			return tf.boolc(xi.t == nil && yi.t == nil)
		}
		if !types.Identical(xi.t, yi.t) {
			return tf.ff
		}
		return i.cmpEqualO(fr, o, xi.t, xi.v, yi.v, depth+1)
	case *types.Map:
		xm, ym := x.(*omap), y.(*omap)
		if o.equateEmpty && xm.len() == 0 && ym.len() == 0 {
			return tf.tt
		}
		if (xm == nil) != (ym == nil) {
			return tf.ff
		}
		if xm.len() != ym.len() {
			return tf.ff
		}
		r := tf.tt
		for k := range xm.keys {
			v2, ok := i.mapLookup(ym, xm.keys[k])
			if !ok {
				return tf.ff
			}
			r = tf.and(r, i.cmpEqualO(fr, o, ut.Elem(), xm.vals[k], v2, depth+1))
		}
		return r
	case *types.Signature:
		return tf.boolc(isNilFunc(x) && isNilFunc(y))
	}
	panic(pathAbort{"unsupported", fmt.Sprintf("cmp.Equal on %s", t)})
}

func typeNamePath(t types.Type) string {
	if n, ok := types.Unalias(t).(*types.Named); ok && n.Obj().Pkg() != nil {
		return n.Obj().Pkg().Path()
	}
	return ""
}

func shortName(t types.Type) string {
	if n, ok := types.Unalias(t).(*types.Named); ok {
		return n.Obj().Name()
	}
	return t.String()
}

func isNilFunc(v value) bool {
	switch f := v.(type) {
	case *ssa.Function:
		return f == nil
	case *closure:
		return f == nil
	case nil:
		return true
	}
	return false
}

func extCmpEqual(fr *frame, args []value) value {
	i := fr.i
	var o cmpOpts
	for _, ov := range variadic(args[2]) {
		oi, _ := ov.(iface)
		m, ok := oi.v.(cmpOpt)
		if !ok {
			panic(pathAbort{"unsupported", "cmp.Equal with an option the contract model does not know"})
		}
		switch m.kind {
		case "exporter-all":
			o.allowUnexported = true
		case "equate-empty":
			o.equateEmpty = true
		case "ignore-unexported":
			o.ignoreUnexported = true
		case "comparer":
			o.comparers = append(o.comparers, m)
		case "filterpath":
			o.pathIgnores = append(o.pathIgnores, m)
		case "ignore":
			panic(pathAbort{"unsupported", "cmp.Equal with a bare cmp.Ignore()"})
		}
	}
	x, y := args[0].(iface), args[1].(iface)
	if x.t == nil || y.t == nil {
		return x.t == nil && y.t == nil
	}
	if !types.Identical(x.t, y.t) {
		return false
	}
	return mkBool(i.cmpEqualO(fr, o, x.t, x.v, y.v, 0))
}

// ---------------------------------------------------------------- strings helpers

func extIndexByteString(fr *frame, args []value) value {
	i := fr.i
	tf := i.ps.tf
	s := args[0]
	c, _ := i.intTerm(args[1])
	n := strLen(s)
	for k := 0; k < n; k++ {
		if i.ps.decide(tf.cmp(opEq, i.strByte(s, k), c)) {
			return k
		}
	}
	return -1
}

// bytesAsString adapts a model written for strings to []byte arguments.
func bytesAsString(f externalFn, which ...int) externalFn {
	return func(fr *frame, args []value) value {
		a := append([]value(nil), args...)
		for _, k := range which {
			a[k] = conv(fr.i, types.Typ[types.String], types.NewSlice(types.Typ[types.Byte]), a[k])
		}
		return f(fr, a)
	}
}

// three-way lexicographic comparison (strings.Compare / bytes.Compare)
func extCompareString(fr *frame, args []value) value {
	i := fr.i
	if i.ps.decide(i.strEq(args[0], args[1])) {
		return 0
	}
	if i.ps.decide(i.strLess(args[0], args[1], false)) {
		return -1
	}
	return 1
}

func extCountString(fr *frame, args []value) value {
	i := fr.i
	tf := i.ps.tf
	s := args[0]
	c, _ := i.intTerm(args[1])
	n := strLen(s)
	cnt := 0
	for k := 0; k < n; k++ {
		if i.ps.decide(tf.cmp(opEq, i.strByte(s, k), c)) {
			cnt++
		}
	}
	return cnt
}

func (i *interpreter) indexFrom(s, sep value, from int) int {
	n, m := strLen(s), strLen(sep)
	for k := from; k+m <= n; k++ {
		if i.ps.decide(i.strEq(i.strSliceAny(s, k, k+m), sep)) {
			return k
		}
	}
	return -1
}

func (i *interpreter) strSliceAny(s value, lo, hi int) value {
	return i.strSlice(s, lo, hi)
}

func extStringsIndex(fr *frame, args []value) value {
	return fr.i.indexFrom(args[0], args[1], 0)
}

func extStringsContains(fr *frame, args []value) value {
	return fr.i.indexFrom(args[0], args[1], 0) >= 0
}

func extStringsCount(fr *frame, args []value) value {
	i := fr.i
	s, sep := args[0], args[1]
	if strLen(sep) == 0 {
		if isSym(s) {
			panic(pathAbort{"unsupported", "strings.Count(sym, \"\")"})
		}
		return strings.Count(s.(string), "")
	}
	cnt, at := 0, 0
	for {
		k := i.indexFrom(s, sep, at)
		if k < 0 {
			return cnt
		}
		cnt++
		at = k + strLen(sep)
	}
}

func extStringsRepeat(fr *frame, args []value) value {
	i := fr.i
	n := int(asInt64(args[1]))
	if n < 0 {
		panic(targetPanic{iface{i.runtimeErrorString, "strings: negative Repeat count"}})
	}
	var r value = ""
	for k := 0; k < n; k++ {
		r = i.strConcat(r, args[0])
	}
	return r
}

func extItoa(fr *frame, args []value) value { return fr.i.itoa(args[0]) }

// strconv.FormatInt / FormatUint in base 10 (other bases: concrete values only)
func extFormatInt(fr *frame, args []value) value {
	base := asInt64(args[1])
	if base == 10 {
		return fr.i.itoa(args[0])
	}
	if isSym(args[0]) {
		panic(pathAbort{"unsupported", "strconv.FormatInt of a symbolic value in base != 10"})
	}
	t, k := fr.i.intTerm(args[0])
	if kindSigned(k) {
		return strconv.FormatInt(sext(t.val, t.w), int(base))
	}
	return strconv.FormatUint(t.val, int(base))
}

func extAtoi(fr *frame, args []value) value {
	s := fr.i.concreteString(args[0], "strconv.Atoi")
	n, err := strconv.Atoi(s)
	if err != nil {
		return tuple{0, fr.i.errValue(err.Error())}
	}
	return tuple{n, iface{}}
}

func extRuneCountInString(fr *frame, args []value) value {
	s := fr.i.concreteString(args[0], "utf8.RuneCountInString")
	return len([]rune(s))
}

func extAppendRune(fr *frame, args []value) value {
	s := conv(fr.i, types.Typ[types.String], types.Typ[types.Rune], args[1])
	return append(args[0].([]value), bytesOfString(fr.i, s)...)
}

// cmp.Exporter(f): the model requires f to accept every type; it is probed
// on a nil reflect.Type stand-in and must return true.
// cmp.FilterPath(pred, cmp.Ignore()): pred is interpreted on a one-step path
// whose Last() is a cmp.StructField carrying the field's name and index (the
// part of the path API a predicate over field names uses)
func (i *interpreter) pathIgnored(fr *frame, o cmpOpts, st types.Type, name string, idx int) bool {
	cp := i.prog.ImportedPackage("github.com/google/go-cmp/cmp")
	if cp == nil || cp.Type("StructField") == nil || cp.Type("structField") == nil {
		panic(pathAbort{"unsupported", "cmp.FilterPath: go-cmp path types not loaded"})
	}
	sfT := cp.Type("StructField").Type()
	innerT := cp.Type("structField").Type()
	inner := zero(innerT).(structure)
	ist := innerT.Underlying().(*types.Struct)
	for k := 0; k < ist.NumFields(); k++ {
		switch ist.Field(k).Name() {
		case "name":
			inner[k] = name
		case "idx":
			inner[k] = idx
		}
	}
	var cell value = inner
	step := iface{t: sfT, v: structure{&cell}}
	path := []value{step}
	for _, pi := range o.pathIgnores {
		if i.asBool(call(i, fr, 0, pi.fn, []value{path})) {
			return true
		}
	}
	return false
}

func extCmpIgnore(fr *frame, args []value) value {
	return iface{t: types.Typ[types.Int], v: cmpOpt{kind: "ignore"}}
}

func extCmpFilterPath(fr *frame, args []value) value {
	oi, _ := args[1].(iface)
	m, ok := oi.v.(cmpOpt)
	if !ok || m.kind != "ignore" {
		panic(pathAbort{"unsupported", "cmp.FilterPath around an option other than cmp.Ignore()"})
	}
	return iface{t: types.Typ[types.Int], v: cmpOpt{kind: "filterpath", fn: args[0], in: "ignore"}}
}

// cmp.Comparer(f): f must be func(T, T) bool
func extCmpComparer(fr *frame, args []value) value {
	a := args[0].(iface)
	sig, ok := a.t.Underlying().(*types.Signature)
	if !ok || sig.Params().Len() != 2 || sig.Results().Len() != 1 || !types.Identical(sig.Params().At(0).Type(), sig.Params().At(1).Type()) {
		panic(targetPanic{iface{fr.i.runtimeErrorString, "invalid comparer function: " + a.t.String()}})
	}
	return iface{t: types.Typ[types.Int], v: cmpOpt{kind: "comparer", fn: a.v, pt: sig.Params().At(0).Type()}}
}

func extCmpExporter(fr *frame, args []value) value {
	r := call(fr.i, fr, 0, args[0], []value{iface{}})
	if b, ok := r.(bool); !ok || !b {
		panic(pathAbort{"unsupported", "cmp.Exporter with a selective predicate"})
	}
	return iface{t: types.Typ[types.Int], v: cmpOpt{kind: "exporter-all"}}
}

func extStringsJoin(fr *frame, args []value) value {
	i := fr.i
	elems, _ := args[0].([]value)
	var r value = ""
	for k, e := range elems {
		if k > 0 {
			r = i.strConcat(r, args[1])
		}
		r = i.strConcat(r, e)
	}
	return r
}
