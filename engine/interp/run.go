package interp

// World: the loaded program (regenerated from the source tree on every run)
// and the scheduler that explores a harness with a pool of workers.

import (
	"fmt"
	"go/token"
	"go/types"
	"os"
	"runtime"
	"runtime/debug"
	"sort"
	"strings"
	"sync"
	"sync/atomic"
	"time"

	"golang.org/x/tools/go/packages"
	"golang.org/x/tools/go/ssa"
	"golang.org/x/tools/go/ssa/ssautil"
)

type Options struct {
	MaxSteps   int64
	MaxDepth   int
	MaxPaths   int
	Workers    int
	SolverMS   int
	Oracle     Oracles
	Samples    int
	SolverLog  string // directory for SMT transcripts ("" = none)
	Verbose    bool
	StopOnViol bool
	Deadline   time.Time
	sampleMin  *int64
	// BoundIsViolation: a path that exhausts its budget is a candidate
	// non-termination (C16); it is recorded with its model for native replay.
	BoundIsViolation bool
	PathSeconds      int // wall-clock limit per path (0 = none)
}

type World struct {
	Prog      *ssa.Program
	Initial   []*packages.Package
	Main      *ssa.Package
	Sizes     types.Sizes
	target    map[*ssa.Package]bool
	extMu     sync.RWMutex
	extMemo   map[*ssa.Function]externalFn
	extNone   map[*ssa.Function]bool
	rtErr     types.Type
	osArgs    *ssa.Global
	LoadS     float64
	models    map[string]*ssa.Function // std function name -> interpreted model in the harness package
	overrides map[string]*ssa.Function // target function name -> verifOverride_<name> of the harness package
}

// Load builds the SSA program for the package in dir with the given overlay.
func Load(dir string, overlay map[string][]byte, buildFlags []string, patterns []string) (*World, error) {
	t0 := time.Now()
	cfg := &packages.Config{
		Mode:       packages.LoadAllSyntax | packages.NeedModule,
		Dir:        dir,
		Overlay:    overlay,
		BuildFlags: buildFlags,
		Env:        append(os.Environ(), "GOFLAGS=-mod=mod", "GOPROXY=off", "GOSUMDB=off", "GOTOOLCHAIN=local"),
	}
	if len(patterns) == 0 {
		patterns = []string{"."}
	}
	initial, err := packages.Load(cfg, patterns...)
	if err != nil {
		return nil, err
	}
	var errs []string
	packages.Visit(initial, nil, func(p *packages.Package) {
		for _, e := range p.Errors {
			errs = append(errs, e.Error())
		}
	})
	if len(errs) > 0 {
		return nil, fmt.Errorf("load errors:\n%s", strings.Join(errs, "\n"))
	}
	prog, pkgs := ssautil.AllPackages(initial, ssa.InstantiateGenerics)
	prog.Build()
	w := &World{Prog: prog, Initial: initial, Main: pkgs[0], target: map[*ssa.Package]bool{},
		extMemo: map[*ssa.Function]externalFn{}, extNone: map[*ssa.Function]bool{}, models: map[string]*ssa.Function{}}
	w.Sizes = initial[0].TypesSizes
	if w.Sizes == nil {
		w.Sizes = types.SizesFor("gc", "amd64")
	}
	packages.Visit(initial, nil, func(p *packages.Package) {
		sp := prog.Package(p.Types)
		if sp == nil {
			return
		}
		if p.Module != nil && (p.Module.Main || (p.Module.Replace != nil && p.Module.Replace.Version == "")) {
			w.target[sp] = true
		}
	})
	if rp := prog.ImportedPackage("runtime"); rp != nil {
		w.rtErr = rp.Type("errorString").Object().Type()
	} else {
		return nil, fmt.Errorf("program does not include package runtime")
	}
	if op := prog.ImportedPackage("os"); op != nil {
		w.osArgs, _ = op.Members["Args"].(*ssa.Global)
	}
	w.overrides = map[string]*ssa.Function{}
	for name, m := range w.Main.Members {
		if f, ok := m.(*ssa.Function); ok && strings.HasPrefix(name, "verifModel_") {
			w.models[name] = f
		}
		if f, ok := m.(*ssa.Function); ok && strings.HasPrefix(name, "verifOverride_") {
			w.overrides[strings.TrimPrefix(name, "verifOverride_")] = f
		}
	}
	w.LoadS = time.Since(t0).Seconds()
	return w, nil
}

// TargetPackages lists the packages whose code is interpreted with init.
func (w *World) TargetPackages() []string {
	var r []string
	for p := range w.target {
		r = append(r, p.Pkg.Path())
	}
	sort.Strings(r)
	return r
}

// HarnessResult aggregates all paths of one harness.
type HarnessResult struct {
	Harness       string              `json:"harness"`
	Paths         int                 `json:"paths"`
	Status        map[string]int      `json:"status"` // ok / infeasible / bound / unsupported / unknown / violation / panic / exit / engine
	Forks         int                 `json:"forks"`
	Steps         int64               `json:"steps"`
	MaxPathSteps  int64               `json:"max_path_steps"`
	Obligations   int                 `json:"obligations"`
	Discharged    int                 `json:"discharged"`
	Queries       int                 `json:"queries"`
	Sat           int                 `json:"sat"`
	Unsat         int                 `json:"unsat"`
	Unknown       int                 `json:"unknown"`
	SolverS       float64             `json:"solver_s"`
	WallS         float64             `json:"wall_s"`
	Covers        map[string]int      `json:"covers"`
	Violations    []Violation         `json:"violations"`
	Inconclusive  []string            `json:"inconclusive"`
	Messages      map[string]int      `json:"messages"` // abort messages by text (bound/unsupported/engine)
	Samples       []PathSample        `json:"samples"`
	Funcs         []string            `json:"funcs"`
	Complete      bool                `json:"complete"`
	PathLimit     bool                `json:"path_limit_hit"`
	Outputs       map[string]int      `json:"outputs,omitempty"` // verifOutput digests -> path count
	OutTexts      map[string]string   `json:"out_texts,omitempty"`
	OutChoices    map[string][]string `json:"out_choices,omitempty"`
	MaxIterEvents int                 `json:"max_iter_events"`
}

type PathSample struct {
	Status     string            `json:"status"`
	Assignment map[string]uint64 `json:"assignment"`
	Notes      []string          `json:"notes,omitempty"`
	Steps      int64             `json:"steps"`
	Decisions  int               `json:"decisions"`
}

type worker struct {
	id  int
	sol *solver
	log *os.File
}

// Explore runs harness fn over all decision prefixes.
func (w *World) Explore(fn *ssa.Function, opt Options) *HarnessResult {
	t0 := time.Now()
	res := &HarnessResult{Harness: fn.Name(), Status: map[string]int{}, Covers: map[string]int{},
		Messages: map[string]int{}, Outputs: map[string]int{}, OutTexts: map[string]string{}, OutChoices: map[string][]string{}}
	funcs := map[*ssa.Function]bool{}
	var mu sync.Mutex
	cond := sync.NewCond(&mu)
	queue := [][]int{nil}
	active := 0
	sampleMin := int64(-1)
	opt.sampleMin = &sampleMin
	stop := false

	nw := opt.Workers
	if nw <= 0 {
		nw = runtime.NumCPU()
	}
	var wg sync.WaitGroup
	for k := 0; k < nw; k++ {
		wg.Add(1)
		go func(id int) {
			defer wg.Done()
			wk := &worker{id: id}
			var logw *os.File
			if opt.SolverLog != "" {
				f, err := os.Create(fmt.Sprintf("%s/%s.w%d.smt2", opt.SolverLog, fn.Name(), id))
				if err == nil {
					logw = f
					defer f.Close()
				}
			}
			var err error
			if logw != nil {
				wk.sol, err = startSolver(SolverCmd, opt.SolverMS, logw)
			} else {
				wk.sol, err = startSolver(SolverCmd, opt.SolverMS, nil)
			}
			if err != nil {
				panic("symgo: cannot start solver: " + err.Error())
			}
			defer func() {
				mu.Lock()
				res.Queries += wk.sol.nQueries
				res.Sat += wk.sol.nSat
				res.Unsat += wk.sol.nUnsat
				res.Unknown += wk.sol.nUnknown
				res.SolverS += wk.sol.wall.Seconds()
				mu.Unlock()
				wk.sol.close()
			}()
			for {
				mu.Lock()
				for len(queue) == 0 && active > 0 && !stop {
					cond.Wait()
				}
				if stop || (len(queue) == 0 && active == 0) {
					mu.Unlock()
					cond.Broadcast()
					return
				}
				prefix := queue[len(queue)-1]
				queue = queue[:len(queue)-1]
				active++
				mu.Unlock()

				ps := w.runPath(wk, fn, prefix, opt)

				mu.Lock()
				active--
				res.Paths++
				res.Status[ps.status]++
				res.Forks += ps.nForks
				res.Steps += ps.steps
				if ps.steps > res.MaxPathSteps {
					res.MaxPathSteps = ps.steps
				}
				if ps.iterEvents > res.MaxIterEvents {
					res.MaxIterEvents = ps.iterEvents
				}
				res.Obligations += ps.obligations
				res.Discharged += ps.discharged
				for c, n := range ps.covers {
					res.Covers[c] += n
				}
				for f := range ps.funcs {
					funcs[f] = true
				}
				for k, o := range ps.outputs {
					res.Outputs[o]++
					if _, ok := res.OutTexts[o]; !ok && len(res.OutTexts) < 64 {
						res.OutTexts[o] = ps.outTexts[k]
						res.OutChoices[o] = append([]string(nil), ps.choices...)
					}
				}
				switch ps.status {
				case "bound", "unsupported", "engine", "unknown":
					res.Messages[ps.status+": "+ps.statusMsg]++
				}
				for _, m := range ps.inconclusive {
					if len(res.Inconclusive) < 50 {
						res.Inconclusive = append(res.Inconclusive, m)
					}
				}
				for _, v := range ps.violations {
					v.Harness = fn.Name()
					if len(res.Violations) < 200 {
						res.Violations = append(res.Violations, v)
					}
				}
				if ps.sample != nil {
					// keep the opt.Samples paths with the most decisions
					if len(res.Samples) < opt.Samples {
						res.Samples = append(res.Samples, *ps.sample)
					} else {
						mi := 0
						for k := range res.Samples {
							if res.Samples[k].Decisions < res.Samples[mi].Decisions {
								mi = k
							}
						}
						if ps.sample.Decisions > res.Samples[mi].Decisions {
							res.Samples[mi] = *ps.sample
						}
					}
					if len(res.Samples) == opt.Samples {
						m := res.Samples[0].Decisions
						for _, sm := range res.Samples {
							if sm.Decisions < m {
								m = sm.Decisions
							}
						}
						atomic.StoreInt64(&sampleMin, int64(m))
					}
				}
				queue = append(queue, ps.forks...)
				if opt.MaxPaths > 0 && res.Paths+active >= opt.MaxPaths && len(queue) > 0 {
					res.PathLimit = true
					stop = true
				}
				if opt.StopOnViol && len(res.Violations) > 0 {
					stop = true
				}
				if !opt.Deadline.IsZero() && time.Now().After(opt.Deadline) && (len(queue) > 0 || active > 0) {
					res.PathLimit = true
					stop = true
				}
				if opt.Verbose && res.Paths%50000 == 0 {
					fmt.Fprintf(os.Stderr, "  %s: %d paths, queue %d\n", fn.Name(), res.Paths, len(queue))
				}
				mu.Unlock()
				cond.Broadcast()
			}
		}(k)
	}
	wg.Wait()
	for f := range funcs {
		res.Funcs = append(res.Funcs, f.String())
	}
	sort.Strings(res.Funcs)
	res.WallS = time.Since(t0).Seconds()
	res.Complete = !res.PathLimit && res.Status["bound"] == 0 && res.Status["unsupported"] == 0 &&
		res.Status["engine"] == 0 && res.Status["unknown"] == 0 && len(res.Inconclusive) == 0 && res.Unknown == 0
	return res
}

func (w *World) newPathState(wk *worker, prefix []int, opt Options) *pathState {
	ps := &pathState{
		tf: newTermFactory(), sol: wk.sol, prefix: prefix,
		varIdx: map[string]int{}, covers: map[string]int{}, funcs: map[*ssa.Function]bool{},
		choiceVals: map[string]int{},
		maxSteps:   opt.MaxSteps, maxDepth: opt.MaxDepth,
		failRead: map[string]bool{}, failWrite: map[string]bool{},
		oracle: opt.Oracle, forcedPerm: -1,
	}
	if opt.PathSeconds > 0 {
		ps.pathDeadline = time.Now().Add(time.Duration(opt.PathSeconds) * time.Second)
	}
	if ps.maxSteps <= 0 {
		ps.maxSteps = 20_000_000
	}
	if ps.maxDepth <= 0 {
		ps.maxDepth = 3000
	}
	if ps.oracle.MapOrder && ps.oracle.MapOrderEvents == 0 {
		ps.oracle.MapOrderEvents = 12
	}
	return ps
}

// runPath executes one path of harness fn.
func (w *World) runPath(wk *worker, fn *ssa.Function, prefix []int, opt Options) (ps *pathState) {
	ps = w.newPathState(wk, prefix, opt)
	i := &interpreter{w: w, prog: w.Prog, globals: make(map[*ssa.Global]*value), sizes: w.Sizes, ps: ps,
		runtimeErrorString: w.rtErr}
	wk.sol.beginPath()
	defer wk.sol.endPath()
	var lastFrame *frame
	defer func() {
		p := recover()
		switch p := p.(type) {
		case nil:
			ps.status = "ok"
		case pathAbort:
			ps.status, ps.statusMsg = p.kind, p.msg
			if p.kind == "done" {
				ps.status = "ok"
			}
			if p.kind == "bound" && opt.BoundIsViolation {
				ps.recordViolation("bound", p.msg, ps.currentModel(), nil)
			}
		case exitPanic:
			ps.status, ps.statusMsg = "exit", fmt.Sprintf("os.Exit(%d) outside verifRunMain", int(p))
		case targetPanic:
			ps.status, ps.statusMsg = "panic", "panic: "+i.show(p.v)
			ps.recordViolation("panic", ps.statusMsg, ps.currentModel(), lastFrame)
		case rtPanic:
			ps.status, ps.statusMsg = "panic", string(p)
			ps.recordViolation("panic", string(p), ps.currentModel(), lastFrame)
		default:
			ps.status, ps.statusMsg = "engine", fmt.Sprintf("%T: %v\n%s", p, p, debug.Stack())
		}
		if opt.Samples > 0 && (ps.status == "ok" || ps.status == "bound") && int64(len(ps.taken)) > atomic.LoadInt64(opt.sampleMin) {
			s := &PathSample{Status: ps.status, Assignment: map[string]uint64{}, Notes: ps.notes, Steps: ps.steps, Decisions: len(ps.taken)}
			if len(ps.vars) > 0 {
				if m := ps.currentModel(); m != nil {
					for _, sv := range ps.vars {
						s.Assignment[sv.name] = m[sv.t.name]
					}
				}
			}
			for n, c := range ps.choiceVals {
				s.Assignment[n] = uint64(c)
			}
			ps.sample = s
		}
	}()
	// initialise target packages (non-target inits are skipped in callSSA)
	call(i, nil, token.NoPos, w.Main.Func("init"), nil)
	lastFrame = nil
	call(i, nil, token.NoPos, fn, nil)
	return ps
}

// runLazyInit interprets the synthetic init of a non-target package.  An
// initialiser the engine cannot execute ends the attempt; variables
// initialised before it keep their values, the others stay unavailable.
func (i *interpreter) runLazyInit(pkg *ssa.Package) {
	if i.lazyInit == nil {
		i.lazyInit = map[*ssa.Package]int{}
	}
	i.lazyInit[pkg] = 1
	defer func() {
		i.lazyInit[pkg] = 2
		if r := recover(); r != nil {
			if pa, ok := r.(pathAbort); ok && pa.kind != "unsupported" && pa.kind != "engine" {
				panic(r) // budget / infeasible: belongs to the path
			}
			if _, ok := r.(exitPanic); ok {
				panic(r)
			}
		}
	}()
	if f := pkg.Func("init"); f != nil && f.Blocks != nil {
		callSSABody(i, nil, f, nil)
	}
}

// global returns the cell of a package-level variable, created on demand.
func (i *interpreter) global(g *ssa.Global) *value {
	if r, ok := i.globals[g]; ok {
		return r
	}
	if g.Pkg != nil && !i.w.target[g.Pkg] {
		if g == i.w.osArgs {
			cell := value(append([]value(nil), i.ps.osArgs...))
			i.globals[g] = &cell
			return &cell
		}
		if g.Pkg.Pkg.Path() == "os" && (g.Name() == "Stdout" || g.Name() == "Stderr") {
			// the standard streams as handles of the virtual file system
			std := 1
			if g.Name() == "Stderr" {
				std = 2
			}
			var f value = &osFile{name: "/dev/" + strings.ToLower(g.Name()), std: std}
			cell := value(&f)
			i.globals[g] = &cell
			return &cell
		}
		if !strings.HasPrefix(g.Name(), "init$guard") && i.lazyInit[g.Pkg] != 1 {
			// best-effort, on demand: run the package's own initialisers (its
			// imports stay lazy); whatever they cannot compute stays unsupported
			if i.lazyInit[g.Pkg] == 0 {
				i.runLazyInit(g.Pkg)
				if r, ok := i.globals[g]; ok {
					return r
				}
			}
			panic(pathAbort{"unsupported", "use of uninitialised global of non-target package: " + g.String()})
		}
	}
	cell := zero(deref(g.Type()))
	i.globals[g] = &cell
	return &cell
}

func (i *interpreter) show(v value) string {
	if s, ok := v.(iface); ok {
		if str, ok := s.v.(string); ok {
			return str
		}
		return toString(s.v)
	}
	return toString(v)
}
