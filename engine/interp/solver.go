package interp

// Link to one long-lived SMT solver process (z3 -in by default).
//
// Protocol per path:  (push 1)  declarations/definitions/assertions …
//                     queries as (push 1)(assert c)(check-sat)[(get-value …)](pop 1)
//                     (pop 1) at path end.
// Any "(error" line, "unknown" or a timeout makes the answer resUnknown; the
// caller must treat that as inconclusive, never as a pass.

import (
	"bufio"
	"fmt"
	"io"
	"os"
	"os/exec"
	"strconv"
	"strings"
	"time"
)

type satResult int

const (
	resUnsat satResult = iota
	resSat
	resUnknown
)

func (r satResult) String() string { return [...]string{"unsat", "sat", "unknown"}[r] }

type solver struct {
	cmd     *exec.Cmd
	in      io.WriteCloser
	out     *bufio.Reader
	log     io.Writer // optional transcript of everything sent
	defined map[uint32]bool
	timeMS  int
	argv    []string

	nQueries, nSat, nUnsat, nUnknown int
	wall                             time.Duration
	dead                             bool
}

// SolverCmd is the command line used to start a solver.
var SolverCmd = []string{"z3", "-in", "-smt2"}

func startSolver(argv []string, timeoutMS int, log io.Writer) (*solver, error) {
	s := &solver{log: log, timeMS: timeoutMS, argv: argv}
	if err := s.start(); err != nil {
		return nil, err
	}
	return s, nil
}

func (s *solver) start() error {
	cmd := exec.Command(s.argv[0], s.argv[1:]...)
	in, err := cmd.StdinPipe()
	if err != nil {
		return err
	}
	out, err := cmd.StdoutPipe()
	if err != nil {
		return err
	}
	cmd.Stderr = os.Stderr
	if err := cmd.Start(); err != nil {
		return err
	}
	s.cmd, s.in, s.out = cmd, in, bufio.NewReader(out)
	s.defined = make(map[uint32]bool)
	s.dead = false
	if strings.Contains(s.argv[0], "z3") {
		if s.timeMS > 0 {
			s.send(fmt.Sprintf("(set-option :timeout %d)", s.timeMS))
		}
	} else if strings.Contains(s.argv[0], "cvc5") {
		s.send("(set-logic QF_BV)")
	}
	s.send("(set-option :produce-models true)")
	return nil
}

func (s *solver) close() {
	if s.cmd != nil {
		s.in.Close()
		s.cmd.Process.Kill()
		s.cmd.Wait()
		s.cmd = nil
	}
}

func (s *solver) send(line string) {
	if s.log != nil {
		io.WriteString(s.log, line+"\n")
	}
	if _, err := io.WriteString(s.in, line+"\n"); err != nil {
		s.dead = true
	}
}

// beginPath / endPath bracket the declarations of one path.
func (s *solver) beginPath() {
	if s.dead {
		s.close()
		if err := s.start(); err != nil {
			panic("symgo: cannot restart solver: " + err.Error())
		}
	}
	s.send("(push 1)")
	s.defined = make(map[uint32]bool)
}

func (s *solver) endPath() {
	s.send("(pop 1)")
}

// define emits declarations/definitions for t and everything below it.
func (s *solver) define(t *Term) {
	if t.op == opConst || s.defined[t.id] {
		return
	}
	// iterative post-order to survive deep DAGs
	type fr struct {
		t *Term
		i int
	}
	stack := []fr{{t, 0}}
	for len(stack) > 0 {
		top := &stack[len(stack)-1]
		tt := top.t
		if tt.op == opConst || s.defined[tt.id] {
			stack = stack[:len(stack)-1]
			continue
		}
		if top.i < int(tt.na) {
			c := tt.a[top.i]
			top.i++
			if c.op != opConst && !s.defined[c.id] {
				stack = append(stack, fr{c, 0})
			}
			continue
		}
		if tt.op == opVar {
			s.send(fmt.Sprintf("(declare-const %s %s)", tt.name, sortOf(tt.w)))
		} else {
			s.send(fmt.Sprintf("(define-fun %s () %s %s)", tt.ref(), sortOf(tt.w), tt.body()))
		}
		s.defined[tt.id] = true
		stack = stack[:len(stack)-1]
	}
}

// assert adds t to the path condition held by the solver.
func (s *solver) assert(t *Term) {
	s.define(t)
	s.send("(assert " + t.ref() + ")")
}

func (s *solver) readLine() (string, bool) {
	line, err := s.out.ReadString('\n')
	if err != nil {
		s.dead = true
		return "", false
	}
	return strings.TrimSpace(line), true
}

// check asks whether (path condition ∧ extra) is satisfiable.  When sat and
// vars != nil the model of vars is returned.
func (s *solver) check(extra *Term, vars []*Term) (satResult, map[string]uint64) {
	t0 := time.Now()
	defer func() { s.wall += time.Since(t0) }()
	s.nQueries++
	if extra != nil {
		s.define(extra)
		for _, v := range vars {
			s.define(v)
		}
		s.send("(push 1)")
		s.send("(assert " + extra.ref() + ")")
	}
	s.send("(check-sat)")
	res := resUnknown
	line, ok := s.readLine()
	for ok && line == "" {
		line, ok = s.readLine()
	}
	switch {
	case !ok:
	case line == "sat":
		res = resSat
	case line == "unsat":
		res = resUnsat
	case strings.HasPrefix(line, "(error"):
		fmt.Fprintln(os.Stderr, "symgo: solver error:", line)
		s.dead = true // resynchronise by restarting
	}
	var model map[string]uint64
	if res == resSat && len(vars) > 0 {
		var sb strings.Builder
		sb.WriteString("(get-value (")
		for _, v := range vars {
			sb.WriteString(v.name)
			sb.WriteByte(' ')
		}
		sb.WriteString("))")
		s.send(sb.String())
		model = make(map[string]uint64, len(vars))
		txt := s.readSexp()
		if !parseModel(txt, model) {
			res = resUnknown
			s.dead = true
		}
	}
	if extra != nil && !s.dead {
		s.send("(pop 1)")
	}
	switch res {
	case resSat:
		s.nSat++
	case resUnsat:
		s.nUnsat++
	default:
		s.nUnknown++
	}
	return res, model
}

// readSexp reads lines until parentheses balance.
func (s *solver) readSexp() string {
	var sb strings.Builder
	depth := 0
	started := false
	for {
		line, ok := s.readLine()
		if !ok {
			return sb.String()
		}
		sb.WriteString(line)
		sb.WriteByte(' ')
		for _, c := range line {
			if c == '(' {
				depth++
				started = true
			} else if c == ')' {
				depth--
			}
		}
		if started && depth <= 0 {
			return sb.String()
		}
	}
}

// parseModel parses "((x #x0a) (b true) (y (_ bv3 8)) …)".
func parseModel(txt string, out map[string]uint64) bool {
	if strings.Contains(txt, "(error") {
		return false
	}
	toks := tokenizeSexp(txt)
	// expect: ( ( name value ) ... )
	i := 0
	if len(toks) == 0 || toks[0] != "(" {
		return false
	}
	i++
	for i < len(toks) && toks[i] == "(" {
		i++
		if i >= len(toks) {
			return false
		}
		name := toks[i]
		i++
		if i >= len(toks) {
			return false
		}
		var v uint64
		switch {
		case toks[i] == "true":
			v = 1
			i++
		case toks[i] == "false":
			v = 0
			i++
		case strings.HasPrefix(toks[i], "#x"):
			u, err := strconv.ParseUint(toks[i][2:], 16, 64)
			if err != nil {
				return false
			}
			v = u
			i++
		case strings.HasPrefix(toks[i], "#b"):
			u, err := strconv.ParseUint(toks[i][2:], 2, 64)
			if err != nil {
				return false
			}
			v = u
			i++
		case toks[i] == "(": // (_ bvN w)
			if i+4 < len(toks) && toks[i+1] == "_" && strings.HasPrefix(toks[i+2], "bv") {
				u, err := strconv.ParseUint(toks[i+2][2:], 10, 64)
				if err != nil {
					return false
				}
				v = u
				i += 5
			} else {
				return false
			}
		default:
			return false
		}
		if i >= len(toks) || toks[i] != ")" {
			return false
		}
		i++
		out[name] = v
	}
	return true
}

func tokenizeSexp(s string) []string {
	var toks []string
	i := 0
	for i < len(s) {
		c := s[i]
		switch {
		case c == ' ' || c == '\n' || c == '\t' || c == '\r':
			i++
		case c == '(' || c == ')':
			toks = append(toks, string(c))
			i++
		case c == '|':
			j := i + 1
			for j < len(s) && s[j] != '|' {
				j++
			}
			toks = append(toks, s[i:j+1])
			i = j + 1
		default:
			j := i
			for j < len(s) && !strings.ContainsRune(" \n\t\r()", rune(s[j])) {
				j++
			}
			toks = append(toks, s[i:j])
			i = j
		}
	}
	return toks
}
