// Copyright 2013 The Go Authors. All rights reserved.
// Use of this source code is governed by a BSD-style
// license that can be found in the LICENSE file.

// Package interp is the core of symgo: a symbolic executor for go/ssa built
// from golang.org/x/tools/go/ssa/interp (v0.29.0).  Instruction semantics,
// value boxing, interface/type-switch machinery and defer/recover are those
// of interp; added are symbolic scalars and strings (sym.go), association
// list maps (omap.go), controlled append growth, decision-prefix forking
// (path.go), the SMT link (solver.go, term.go), the std-library boundary
// (ext.go) and the harness API (api.go).
package interp

import (
	"fmt"
	"go/token"
	"go/types"
	"log"
	"runtime"
	"runtime/debug"
	"slices"
	"strings"
	"time"

	"golang.org/x/tools/go/ssa"
)

func deref(t types.Type) types.Type {
	if p, ok := t.Underlying().(*types.Pointer); ok {
		return p.Elem()
	}
	if p, ok := types.Unalias(t).(*types.Pointer); ok {
		return p.Elem()
	}
	panic(fmt.Sprintf("deref: not a pointer: %s", t))
}

type continuation int

const (
	kNext continuation = iota
	kReturn
	kJump
)

// Mode is a bitmask of options affecting the interpreter.
type Mode uint

const (
	DisableRecover Mode = 1 << iota // Disable recover() in target programs; show interpreter crash instead.
	EnableTracing                   // Print a trace of all instructions as they are interpreted.
)

type methodSet map[string]*ssa.Function

// State of one path execution.
type interpreter struct {
	w                  *World
	prog               *ssa.Program           // the SSA program
	globals            map[*ssa.Global]*value // addresses of global variables
	mode               Mode                   // interpreter options
	runtimeErrorString types.Type             // the runtime.errorString type
	sizes              types.Sizes            // the effective type-sizing function
	ps                 *pathState
	lazyInit           map[*ssa.Package]int // non-target packages: 1 = init running, 2 = init attempted
	fmtPlus            bool                 // inside a %+v operand
}

type deferred struct {
	fn    value
	args  []value
	instr *ssa.Defer
	tail  *deferred
}

type frame struct {
	i                *interpreter
	caller           *frame
	fn               *ssa.Function
	block, prevBlock *ssa.BasicBlock
	env              map[ssa.Value]value // dynamic values of SSA variables
	locals           []value
	defers           *deferred
	result           value
	panicking        bool
	panic            interface{}
	phitemps         []value // temporaries for parallel phi assignment
}

func (fr *frame) get(key ssa.Value) value {
	switch key := key.(type) {
	case nil:
		// Hack; simplifies handling of optional attributes
		// such as ssa.Slice.{Low,High}.
		return nil
	case *ssa.Function, *ssa.Builtin:
		return key
	case *ssa.Const:
		return constValue(key)
	case *ssa.Global:
		return fr.i.global(key)
	}
	if r, ok := fr.env[key]; ok {
		return r
	}
	panic(fmt.Sprintf("get: no value for %T: %v", key, key.Name()))
}

// runDefer runs a deferred call d.
// It always returns normally, but may set or clear fr.panic.
func (fr *frame) runDefer(d *deferred) {
	var ok bool
	defer func() {
		if !ok {
			// Deferred call created a new state of panic.
			fr.panicking = true
			fr.panic = classifyPanic(recover(), fr)
		}
	}()
	call(fr.i, fr, d.instr.Pos(), d.fn, d.args)
	ok = true
}

// runDefers executes fr's deferred function calls in LIFO order.
//
// On entry, fr.panicking indicates a state of panic; if
// true, fr.panic contains the panic value.
//
// On completion, if a deferred call started a panic, or if no
// deferred call recovered from a previous state of panic, then
// runDefers itself panics after the last deferred call has run.
//
// If there was no initial state of panic, or it was recovered from,
// runDefers returns normally.
func (fr *frame) runDefers() {
	for d := fr.defers; d != nil; d = d.tail {
		fr.runDefer(d)
	}
	fr.defers = nil
	if fr.panicking {
		panic(fr.panic) // new panic, or still panicking
	}
}

func lookupMethod(i *interpreter, typ types.Type, meth *types.Func) *ssa.Function {
	return i.prog.LookupMethod(typ, meth.Pkg(), meth.Name())
}

// visitInstr interprets a single ssa.Instruction within the activation
// record frame.  It returns a continuation value indicating where to
// read the next instruction from.
func visitInstr(fr *frame, instr ssa.Instruction) continuation {
	switch instr := instr.(type) {
	case *ssa.DebugRef:
		// no-op

	case *ssa.UnOp:
		fr.env[instr] = unop(fr.i, instr, fr.get(instr.X))

	case *ssa.BinOp:
		fr.env[instr] = binop(fr.i, instr.Op, instr.X.Type(), fr.get(instr.X), fr.get(instr.Y))

	case *ssa.Call:
		fn, args := prepareCall(fr, &instr.Call)
		fr.env[instr] = call(fr.i, fr, instr.Pos(), fn, args)

	case *ssa.ChangeInterface:
		fr.env[instr] = fr.get(instr.X)

	case *ssa.ChangeType:
		fr.env[instr] = fr.get(instr.X) // (can't fail)

	case *ssa.Convert:
		fr.env[instr] = conv(fr.i, instr.Type(), instr.X.Type(), fr.get(instr.X))

	case *ssa.SliceToArrayPointer:
		fr.env[instr] = sliceToArrayPointer(instr.Type(), instr.X.Type(), fr.get(instr.X))

	case *ssa.MakeInterface:
		fr.env[instr] = iface{t: instr.X.Type(), v: fr.get(instr.X)}

	case *ssa.Extract:
		fr.env[instr] = fr.get(instr.Tuple).(tuple)[instr.Index]

	case *ssa.Slice:
		fr.env[instr] = slice(fr.i, fr.get(instr.X), fr.get(instr.Low), fr.get(instr.High), fr.get(instr.Max))

	case *ssa.Return:
		switch len(instr.Results) {
		case 0:
		case 1:
			fr.result = fr.get(instr.Results[0])
		default:
			var res []value
			for _, r := range instr.Results {
				res = append(res, fr.get(r))
			}
			fr.result = tuple(res)
		}
		fr.block = nil
		return kReturn

	case *ssa.RunDefers:
		fr.runDefers()

	case *ssa.Panic:
		panic(targetPanic{fr.get(instr.X)})

	case *ssa.Send:
		panic(pathAbort{"unsupported", "channel send"})

	case *ssa.Store:
		addr := fr.get(instr.Addr).(*value)
		if addr == nil {
			panic(rtPanic("runtime error: invalid memory address or nil pointer dereference"))
		}
		store(deref(instr.Addr.Type()), addr, fr.get(instr.Val))

	case *ssa.If:
		succ := 1
		if fr.i.asBool(fr.get(instr.Cond)) {
			succ = 0
		}
		fr.prevBlock, fr.block = fr.block, fr.block.Succs[succ]
		return kJump

	case *ssa.Jump:
		fr.prevBlock, fr.block = fr.block, fr.block.Succs[0]
		return kJump

	case *ssa.Defer:
		fn, args := prepareCall(fr, &instr.Call)
		defers := &fr.defers
		if into := fr.get(instr.DeferStack); into != nil {
			defers = into.(**deferred)
		}
		*defers = &deferred{
			fn:    fn,
			args:  args,
			instr: instr,
			tail:  *defers,
		}

	case *ssa.Go:
		panic(pathAbort{"unsupported", "go statement"})

	case *ssa.MakeChan:
		panic(pathAbort{"unsupported", "make(chan)"})

	case *ssa.Alloc:
		var addr *value
		if instr.Heap {
			// new
			addr = new(value)
			fr.env[instr] = addr
		} else {
			// local
			addr = fr.env[instr].(*value)
		}
		*addr = zero(deref(instr.Type()))

	case *ssa.MakeSlice:
		c := fr.i.concSize(fr.get(instr.Cap), "makeslice: cap out of range")
		l := fr.i.concSize(fr.get(instr.Len), "makeslice: len out of range")
		if l > c {
			panic(rtPanic("runtime error: makeslice: len out of range"))
		}
		slice := make([]value, c)
		tElt := instr.Type().Underlying().(*types.Slice).Elem()
		for i := range slice {
			slice[i] = zero(tElt)
		}
		fr.env[instr] = slice[:l]

	case *ssa.MakeMap:
		fr.env[instr] = newOmap(instr.Type().Underlying().(*types.Map).Key())

	case *ssa.Range:
		fr.env[instr] = fr.i.rangeIter(fr.get(instr.X), instr.X.Type())

	case *ssa.Next:
		fr.env[instr] = fr.get(instr.Iter).(iter).next()

	case *ssa.FieldAddr:
		x := fr.get(instr.X).(*value)
		if x == nil {
			panic(rtPanic("runtime error: invalid memory address or nil pointer dereference"))
		}
		fr.env[instr] = &(*x).(structure)[instr.Field]

	case *ssa.Field:
		fr.env[instr] = fr.get(instr.X).(structure)[instr.Field]

	case *ssa.IndexAddr:
		x := fr.get(instr.X)
		idx := fr.get(instr.Index)
		switch x := x.(type) {
		case []value:
			fr.env[instr] = &x[fr.i.concIndex(idx, len(x))]
		case *value: // *array
			if x == nil {
				panic(rtPanic("runtime error: invalid memory address or nil pointer dereference"))
			}
			a := (*x).(array)
			fr.env[instr] = &a[fr.i.concIndex(idx, len(a))]
		default:
			panic(fmt.Sprintf("unexpected x type in IndexAddr: %T", x))
		}

	case *ssa.Index:
		x := fr.get(instr.X)
		idx := fr.get(instr.Index)

		switch x := x.(type) {
		case array:
			fr.env[instr] = x[fr.i.concIndex(idx, len(x))]
		case string:
			fr.env[instr] = x[fr.i.concIndex(idx, len(x))]
		case symStr:
			fr.env[instr] = mkInt(x.b[fr.i.concIndex(idx, len(x.b))], types.Uint8)
		default:
			panic(fmt.Sprintf("unexpected x type in Index: %T", x))
		}

	case *ssa.Lookup:
		fr.env[instr] = lookup(fr.i, instr, fr.get(instr.X), fr.get(instr.Index))

	case *ssa.MapUpdate:
		fr.i.mapInsert(fr.get(instr.Map).(*omap), fr.get(instr.Key), fr.get(instr.Value))

	case *ssa.TypeAssert:
		fr.env[instr] = typeAssert(fr.i, instr, fr.get(instr.X).(iface))

	case *ssa.MakeClosure:
		var bindings []value
		for _, binding := range instr.Bindings {
			bindings = append(bindings, fr.get(binding))
		}
		fr.env[instr] = &closure{instr.Fn.(*ssa.Function), bindings}

	case *ssa.Phi:
		log.Fatal("unreachable") // phis are processed at block entry

	case *ssa.Select:
		panic(pathAbort{"unsupported", "select"})

	default:
		panic(fmt.Sprintf("unexpected instruction: %T", instr))
	}

	// if val, ok := instr.(ssa.Value); ok {
	// 	fmt.Println(toString(fr.env[val])) // debugging
	// }

	return kNext
}

// prepareCall determines the function value and argument values for a
// function call in a Call, Go or Defer instruction, performing
// interface method lookup if needed.
func prepareCall(fr *frame, call *ssa.CallCommon) (fn value, args []value) {
	v := fr.get(call.Value)
	if call.Method == nil {
		// Function call.
		fn = v
	} else {
		// Interface method invocation.
		recv := v.(iface)
		if recv.t == nil {
			panic(rtPanic("runtime error: invalid memory address or nil pointer dereference"))
		}
		if f := lookupMethod(fr.i, recv.t, call.Method); f == nil {
			// Unreachable in well-typed programs.
			panic(fmt.Sprintf("method set for dynamic type %v does not contain %s", recv.t, call.Method))
		} else {
			fn = f
		}
		args = append(args, recv.v)
	}
	for _, arg := range call.Args {
		args = append(args, fr.get(arg))
	}
	return
}

// call interprets a call to a function (function, builtin or closure)
// fn with arguments args, returning its result.
// callpos is the position of the callsite.
func call(i *interpreter, caller *frame, callpos token.Pos, fn value, args []value) value {
	switch fn := fn.(type) {
	case *ssa.Function:
		if fn == nil {
			panic(rtPanic("runtime error: invalid memory address or nil pointer dereference")) // nil func
		}
		return callSSA(i, caller, callpos, fn, args, nil)
	case *closure:
		return callSSA(i, caller, callpos, fn.Fn, args, fn.Env)
	case *ssa.Builtin:
		return callBuiltin(caller, callpos, fn, args)
	case nativeFn:
		return fn(caller, args)
	}
	panic(fmt.Sprintf("cannot call %T", fn))
}

func loc(fset *token.FileSet, pos token.Pos) string {
	if pos == token.NoPos {
		return ""
	}
	return " at " + fset.Position(pos).String()
}

// callSSA interprets a call to function fn with arguments args,
// and lexical environment env, returning its result.
// callpos is the position of the callsite.
func callSSA(i *interpreter, caller *frame, callpos token.Pos, fn *ssa.Function, args []value, env []value) value {
	fr := &frame{
		i:      i,
		caller: caller, // for panic/recover
		fn:     fn,
	}
	if fn.Parent() == nil {
		if ext := i.w.external(fn); ext != nil {
			return ext(fr, args)
		}
		if fn.Blocks == nil {
			panic(pathAbort{"unsupported", "no code for function: " + fn.String()})
		}
	}

	return callSSABodyEnv(i, caller, fn, args, env)
}

// callSSABody interprets fn's own body (bypassing externals / overrides).
func callSSABody(i *interpreter, caller *frame, fn *ssa.Function, args []value) value {
	return callSSABodyEnv(i, caller, fn, args, nil)
}

func callSSABodyEnv(i *interpreter, caller *frame, fn *ssa.Function, args []value, env []value) value {
	fr := &frame{
		i:      i,
		caller: caller, // for panic/recover
		fn:     fn,
	}
	// generic function body?
	if fn.TypeParams().Len() > 0 && len(fn.TypeArgs()) == 0 {
		panic("interp requires ssa.BuilderMode to include InstantiateGenerics to execute generics")
	}
	ps := i.ps
	ps.depth++
	if ps.depth > ps.maxDepth {
		panic(pathAbort{"bound", fmt.Sprintf("call depth %d exceeded in %s", ps.maxDepth, fn)})
	}
	defer func() { ps.depth-- }()
	if !ps.funcs[fn] {
		ps.funcs[fn] = true
	}

	fr.env = make(map[ssa.Value]value)
	fr.block = fn.Blocks[0]
	fr.locals = make([]value, len(fn.Locals))
	for i, l := range fn.Locals {
		fr.locals[i] = zero(deref(l.Type()))
		fr.env[l] = &fr.locals[i]
	}
	for i, p := range fn.Params {
		fr.env[p] = args[i]
	}
	for i, fv := range fn.FreeVars {
		fr.env[fv] = env[i]
	}
	for fr.block != nil {
		runFrame(fr)
	}
	// Destroy the locals to avoid accidental use after return.
	for i := range fn.Locals {
		fr.locals[i] = bad{}
	}
	return fr.result
}

// runFrame executes SSA instructions starting at fr.block and
// continuing until a return, a panic, or a recovered panic.
//
// After a panic, runFrame panics.
//
// After a normal return, fr.result contains the result of the call
// and fr.block is nil.
//
// A recovered panic in a function without named return parameters
// (NRPs) becomes a normal return of the zero value of the function's
// result type.
//
// After a recovered panic in a function with NRPs, fr.result is
// undefined and fr.block contains the block at which to resume
// control.
func runFrame(fr *frame) {
	defer func() {
		if fr.block == nil {
			return // normal return
		}
		p := classifyPanic(recover(), fr)
		fr.panicking = true
		fr.panic = p
		fr.runDefers()
		fr.block = fr.fn.Recover
	}()

	ps := fr.i.ps
	for {
		nonPhis := executePhis(fr)
		ps.steps += int64(len(nonPhis))
		if ps.steps > ps.maxSteps {
			panic(pathAbort{"bound", fmt.Sprintf("instruction budget %d exceeded in %s", ps.maxSteps, fr.fn)})
		}
		if ps.steps > ps.nextClock {
			// wall-clock guard per path (solver-heavy paths make few steps)
			ps.nextClock = ps.steps + 20000
			if !ps.pathDeadline.IsZero() && time.Now().After(ps.pathDeadline) {
				panic(pathAbort{"unknown", "path wall-clock limit exceeded in " + fr.fn.String()})
			}
		}
		for _, instr := range nonPhis {
			if visitInstr(fr, instr) == kReturn {
				return
			}
			// Inv: kNext (continue) or kJump (last instr)
		}
	}
}

// rtPanic is a Go run-time panic of the target program raised by the engine
// while emulating an instruction (index, nil dereference, failed assertion…).
type rtPanic string

func rtPanicf(format string, args ...interface{}) rtPanic {
	return rtPanic(fmt.Sprintf(format, args...))
}

// classifyPanic separates what the target may observe (its own panics and
// its run-time errors) from engine aborts and engine faults; the latter two
// are re-raised at once so that no deferred target code sees them.
func classifyPanic(p interface{}, fr *frame) interface{} {
	switch q := p.(type) {
	case pathAbort, exitPanic:
		panic(p)
	case targetPanic, rtPanic:
		return p
	case runtime.Error:
		if strings.Contains(q.Error(), "integer divide by zero") {
			return rtPanic("runtime error: integer divide by zero")
		}
		panic(pathAbort{"engine", q.Error() + " in " + fr.fn.String() + "\n" + string(debug.Stack())})
	}
	panic(pathAbort{"engine", fmt.Sprintf("%v in %s", p, stackOf(fr))})
}

func stackOf(fr *frame) string {
	var sb strings.Builder
	for f, n := fr, 0; f != nil && n < 8; f, n = f.caller, n+1 {
		if n > 0 {
			sb.WriteString(" < ")
		}
		sb.WriteString(f.fn.String())
	}
	return sb.String()
}

// executePhis executes the phi-nodes at the start of the current
// block and returns the non-phi instructions.
func executePhis(fr *frame) []ssa.Instruction {
	firstNonPhi := -1
	for i, instr := range fr.block.Instrs {
		if _, ok := instr.(*ssa.Phi); !ok {
			firstNonPhi = i
			break
		}
	}
	// Inv: 0 <= firstNonPhi; every block contains a non-phi.

	nonPhis := fr.block.Instrs[firstNonPhi:]
	if firstNonPhi > 0 {
		phis := fr.block.Instrs[:firstNonPhi]
		// Execute parallel assignment of phis.
		//
		// See "the swap problem" in Briggs et al's "Practical Improvements
		// to the Construction and Destruction of SSA Form" for discussion.
		predIndex := slices.Index(fr.block.Preds, fr.prevBlock)
		fr.phitemps = fr.phitemps[:0]
		for _, phi := range phis {
			phi := phi.(*ssa.Phi)
			fr.phitemps = append(fr.phitemps, fr.get(phi.Edges[predIndex]))
		}
		for i, phi := range phis {
			fr.env[phi.(*ssa.Phi)] = fr.phitemps[i]
		}
	}
	return nonPhis
}

// doRecover implements the recover() built-in.
func doRecover(caller *frame) value {
	// recover() must be exactly one level beneath the deferred
	// function (two levels beneath the panicking function) to
	// have any effect.  Thus we ignore both "defer recover()" and
	// "defer f() -> g() -> recover()".
	if caller.i.mode&DisableRecover == 0 &&
		caller != nil && !caller.panicking &&
		caller.caller != nil && caller.caller.panicking {
		caller.caller.panicking = false
		p := caller.caller.panic
		caller.caller.panic = nil

		// TODO(adonovan): support runtime.Goexit.
		switch p := p.(type) {
		case targetPanic:
			// The target program explicitly called panic().
			return p.v
		case rtPanic:
			return iface{caller.i.runtimeErrorString, string(p)}
		default:
			panic(fmt.Sprintf("unexpected panic type %T in target call to recover()", p))
		}
	}
	return iface{}
}
