package interp

// Harness API: functions named verif* in the harness package have native
// bodies (replay from a JSON assignment) and are intercepted here.

import (
	"crypto/sha256"
	"fmt"
	"go/types"
	"os"
	"strings"
)

var apiFuncs = map[string]externalFn{}

func init() {
	intOf := func(k types.BasicKind) externalFn {
		return func(fr *frame, args []value) value {
			name := fr.i.concreteString(args[0], "verif* name")
			return symInt{fr.i.ps.newVar(name, kindWidth(k)), k}
		}
	}
	for k, v := range map[string]externalFn{
		"verifInt":    intOf(types.Int),
		"verifInt64":  intOf(types.Int64),
		"verifInt32":  intOf(types.Int32),
		"verifInt16":  intOf(types.Int16),
		"verifInt8":   intOf(types.Int8),
		"verifUint":   intOf(types.Uint),
		"verifUint64": intOf(types.Uint64),
		"verifUint32": intOf(types.Uint32),
		"verifUint16": intOf(types.Uint16),
		"verifUint8":  intOf(types.Uint8),
		"verifByte":   intOf(types.Uint8),
		"verifBool": func(fr *frame, args []value) value {
			name := fr.i.concreteString(args[0], "verifBool name")
			return symBool{fr.i.ps.newVar(name, 0)}
		},
		"verifString": func(fr *frame, args []value) value {
			// verifString(name, n): n symbolic bytes name[0..n-1]
			name := fr.i.concreteString(args[0], "verifString name")
			n := int(asInt64(args[1]))
			b := make([]*Term, n)
			for k := range b {
				b[k] = fr.i.ps.newVar(fmt.Sprintf("%s[%d]", name, k), 8)
			}
			return mkStr(b)
		},
		"verifChoice": func(fr *frame, args []value) value {
			name := fr.i.concreteString(args[0], "verifChoice name")
			return fr.i.ps.choose(name, int(asInt64(args[1])))
		},
		"verifAssume": func(fr *frame, args []value) value {
			fr.i.ps.assume(fr.i.boolTerm(args[0]))
			return nil
		},
		"verifAssert": func(fr *frame, args []value) value {
			msg := fr.i.showStr(args[1])
			fr.i.ps.check(fr.i.boolTerm(args[0]), msg, fr.caller)
			return nil
		},
		"verifCover": func(fr *frame, args []value) value {
			fr.i.ps.covers[fr.i.concreteString(args[0], "verifCover")]++
			return nil
		},
		"verifNote": func(fr *frame, args []value) value {
			if len(fr.i.ps.notes) < 8 {
				fr.i.ps.notes = append(fr.i.ps.notes, fr.i.showStr(args[0]))
			}
			return nil
		},
		"verifOutput": func(fr *frame, args []value) value {
			// verifOutput(key, text): concrete digest compared across paths by the driver
			key := fr.i.concreteString(args[0], "verifOutput key")
			txt, ok := args[1].(string)
			if !ok {
				panic(pathAbort{"unsupported", "verifOutput of symbolic text"})
			}
			h := sha256.Sum256([]byte(txt))
			d := fmt.Sprintf("%s=%x", key, h[:8])
			fr.i.ps.outputs = append(fr.i.ps.outputs, d)
			fr.i.ps.outTexts = append(fr.i.ps.outTexts, txt)
			return nil
		},
		"verifHostFile": func(fr *frame, args []value) value {
			// concrete content of a file of the host file system (corpus input)
			b, err := os.ReadFile(fr.i.concreteString(args[0], "verifHostFile"))
			if err != nil {
				panic(pathAbort{"unsupported", "verifHostFile: " + err.Error()})
			}
			return string(b)
		},
		"verifEnv": func(fr *frame, args []value) value {
			return os.Getenv(fr.i.concreteString(args[0], "verifEnv"))
		},
		"verifIsSymbolic": func(fr *frame, args []value) value {
			a := args[0].(iface)
			return containsSym(a.v)
		},
		"verifConcretize": func(fr *frame, args []value) value {
			// verifConcretize(x, lo, hi): fork x over [lo,hi]; assume inside
			lo, hi := asInt64(args[1]), asInt64(args[2])
			sv, ok := args[0].(symInt)
			if !ok {
				return args[0]
			}
			v, in := fr.i.ps.concretize(sv.t, kindSigned(sv.k), lo, hi)
			if !in {
				panic(pathAbort{"infeasible", "verifConcretize: outside range"})
			}
			return mkInt(fr.i.ps.tf.bv(uint64(v), sv.t.w), sv.k)
		},
		"verifDeepEqual": func(fr *frame, args []value) value {
			x, y := args[0].(iface), args[1].(iface)
			return mkBool(fr.i.deepEqual(x, y))
		},
		"verifEnd": func(fr *frame, args []value) value {
			panic(pathAbort{"done", ""})
		},
		// ---- virtual environment
		"verifSetArgs": func(fr *frame, args []value) value {
			fr.i.ps.osArgs = append([]value(nil), args[0].([]value)...)
			if g := fr.i.w.osArgs; g != nil {
				delete(fr.i.globals, g)
			}
			return nil
		},
		"verifSetFile": func(fr *frame, args []value) value {
			fr.i.vfsSet(args[0], args[1])
			return nil
		},
		"verifFailRead": func(fr *frame, args []value) value {
			// the file exists but cannot be read (natively: a directory in its place); the name may be symbolic
			fr.i.vfsSet(args[0], unreadable{})
			return nil
		},
		"verifFailWrite": func(fr *frame, args []value) value {
			fr.i.ps.failWrite[fr.i.concreteString(args[0], "verifFailWrite")] = true
			return nil
		},
		"verifFile": func(fr *frame, args []value) value {
			k := fr.i.vfsFind(args[0])
			if k < 0 {
				return tuple{"", false}
			}
			if _, bad := fr.i.ps.vfs[k].data.(unreadable); bad {
				return tuple{"", false}
			}
			return tuple{fr.i.ps.vfs[k].data, true}
		},
		"verifNumWrites": func(fr *frame, args []value) value {
			return len(fr.i.ps.writes)
		},
		"verifWrite": func(fr *frame, args []value) value {
			// verifWrite(k) (path, data string, ok bool): k-th WriteFile call
			k := int(asInt64(args[0]))
			w := fr.i.ps.writes[k]
			return tuple{w.path, w.data, w.ok}
		},
		"verifStdout": func(fr *frame, args []value) value {
			var r value = ""
			for _, s := range fr.i.ps.stdout {
				r = fr.i.strConcat(r, s)
			}
			return r
		},
		"verifOverrides": func(fr *frame, args []value) value {
			fr.i.ps.overridesOn = args[0].(bool)
			return nil
		},
		"verifSetMapOrder": func(fr *frame, args []value) value {
			// verifSetMapOrder(p): every following map iteration uses permutation p of the insertion order (-1: off)
			fr.i.ps.forcedPerm = int(asInt64(args[0]))
			return nil
		},
		"verifMapOrders": func(fr *frame, args []value) value { return 6 },
		"verifStderr": func(fr *frame, args []value) value {
			return strings.Join(fr.i.ps.stderr, "\n")
		},
		"verifRunMain": func(fr *frame, args []value) value {
			// verifRunMain(f) int: exit status of running f as a program
			return fr.i.runMain(fr, args[0])
		},
	} {
		apiFuncs[k] = v
	}
}

func (i *interpreter) showStr(v value) string {
	switch x := v.(type) {
	case string:
		return x
	case symStr:
		var sb strings.Builder
		for _, b := range x.b {
			if b.isConst() {
				sb.WriteByte(byte(b.val))
			} else {
				sb.WriteString("⟨" + b.String() + "⟩")
			}
		}
		return sb.String()
	}
	return toString(v)
}

// runMain runs f; os.Exit(n) -> n, return -> 0, escaping panic -> 2 (with
// the Go runtime's "panic: …" line appended to the stderr/stdout record).
func (i *interpreter) runMain(fr *frame, f value) (code value) {
	ps := i.ps
	depth := ps.depth
	defer func() {
		p := recover()
		if p == nil {
			return
		}
		ps.depth = depth
		switch p := p.(type) {
		case exitPanic:
			code = int(p)
		case pathAbort:
			panic(p)
		case targetPanic:
			ps.stderr = append(ps.stderr, "panic: "+i.show(p.v))
			ps.goPanic = true
			code = 2
		case string:
			ps.stderr = append(ps.stderr, "panic: "+p)
			ps.goPanic = true
			code = 2
		case error:
			ps.stderr = append(ps.stderr, "panic: "+p.Error())
			ps.goPanic = true
			code = 2
		default:
			panic(p)
		}
	}()
	call(i, fr, 0, f, nil)
	return 0
}

// deepEqual follows reflect.DeepEqual on the value shapes harnesses use.
func (i *interpreter) deepEqual(x, y iface) *Term {
	tf := i.ps.tf
	if x.t == nil || y.t == nil {
		return tf.boolc(x.t == nil && y.t == nil)
	}
	if !types.Identical(x.t, y.t) {
		return tf.ff
	}
	return i.deepEq(x.t, x.v, y.v, 0)
}

func (i *interpreter) deepEq(t types.Type, x, y value, depth int) *Term {
	tf := i.ps.tf
	if depth > 64 {
		panic(pathAbort{"unsupported", "verifDeepEqual recursion too deep"})
	}
	switch ut := t.Underlying().(type) {
	case *types.Basic:
		return i.eqTerm(t, x, y)
	case *types.Struct:
		xs, ys := x.(structure), y.(structure)
		r := tf.tt
		for k := 0; k < ut.NumFields(); k++ {
			r = tf.and(r, i.deepEq(ut.Field(k).Type(), xs[k], ys[k], depth+1))
		}
		return r
	case *types.Slice:
		xs, _ := x.([]value)
		ys, _ := y.([]value)
		if (xs == nil) != (ys == nil) || len(xs) != len(ys) {
			return tf.ff
		}
		r := tf.tt
		for k := range xs {
			r = tf.and(r, i.deepEq(ut.Elem(), xs[k], ys[k], depth+1))
		}
		return r
	case *types.Array:
		xs, ys := x.(array), y.(array)
		r := tf.tt
		for k := range xs {
			r = tf.and(r, i.deepEq(ut.Elem(), xs[k], ys[k], depth+1))
		}
		return r
	case *types.Pointer:
		xp, yp := x.(*value), y.(*value)
		if xp == nil || yp == nil {
			return tf.boolc(xp == yp)
		}
		if xp == yp {
			return tf.tt
		}
		return i.deepEq(ut.Elem(), *xp, *yp, depth+1)
	case *types.Interface:
		xi, yi := x.(iface), y.(iface)
		if xi.t == nil || yi.t == nil {
			return tf.boolc(xi.t == nil && yi.t == nil)
		}
		if !types.Identical(xi.t, yi.t) {
			return tf.ff
		}
		return i.deepEq(xi.t, xi.v, yi.v, depth+1)
	case *types.Map:
		xm, ym := x.(*omap), y.(*omap)
		if (xm == nil) != (ym == nil) || xm.len() != ym.len() {
			return tf.ff
		}
		r := tf.tt
		for k := range xm.keys {
			v2, ok := i.mapLookup(ym, xm.keys[k])
			if !ok {
				return tf.ff
			}
			r = tf.and(r, i.deepEq(ut.Elem(), xm.vals[k], v2, depth+1))
		}
		return r
	case *types.Signature:
		return tf.boolc(isNilFunc(x) && isNilFunc(y))
	}
	panic(pathAbort{"unsupported", fmt.Sprintf("verifDeepEqual on %s", t)})
}
