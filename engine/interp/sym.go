package interp

// Symbolic scalars and strings, and the operations of the interpreter lifted
// to them.  Concrete values keep interp's native Go representation; a value
// is one of the sym* types only if it really depends on a solver variable.

import (
	"fmt"
	"go/token"
	"go/types"
	"strconv"
)

type symInt struct {
	t *Term
	k types.BasicKind // Int, Int8 … Uintptr
}

type symBool struct{ t *Term }

// symStr is a string of known length whose bytes are 8-bit terms.
type symStr struct{ b []*Term }

func kindWidth(k types.BasicKind) uint8 {
	switch k {
	case types.Int8, types.Uint8:
		return 8
	case types.Int16, types.Uint16:
		return 16
	case types.Int32, types.Uint32:
		return 32
	}
	return 64
}

func kindSigned(k types.BasicKind) bool {
	switch k {
	case types.Int, types.Int8, types.Int16, types.Int32, types.Int64:
		return true
	}
	return false
}

func isSym(v value) bool {
	switch v.(type) {
	case symInt, symBool, symStr:
		return true
	}
	return false
}

// intTerm converts any integer value to a term and its kind.
func (i *interpreter) intTerm(v value) (*Term, types.BasicKind) {
	tf := i.ps.tf
	switch x := v.(type) {
	case symInt:
		return x.t, x.k
	case int:
		return tf.bv(uint64(x), 64), types.Int
	case int8:
		return tf.bv(uint64(x), 8), types.Int8
	case int16:
		return tf.bv(uint64(x), 16), types.Int16
	case int32:
		return tf.bv(uint64(x), 32), types.Int32
	case int64:
		return tf.bv(uint64(x), 64), types.Int64
	case uint:
		return tf.bv(uint64(x), 64), types.Uint
	case uint8:
		return tf.bv(uint64(x), 8), types.Uint8
	case uint16:
		return tf.bv(uint64(x), 16), types.Uint16
	case uint32:
		return tf.bv(uint64(x), 32), types.Uint32
	case uint64:
		return tf.bv(x, 64), types.Uint64
	case uintptr:
		return tf.bv(uint64(x), 64), types.Uintptr
	}
	panic(fmt.Sprintf("intTerm: not an integer: %T", v))
}

func isIntValue(v value) bool {
	switch v.(type) {
	case symInt, int, int8, int16, int32, int64, uint, uint8, uint16, uint32, uint64, uintptr:
		return true
	}
	return false
}

// mkInt wraps a term as a value of integer kind k (native if constant).
func mkInt(t *Term, k types.BasicKind) value {
	if !t.isConst() {
		return symInt{t, k}
	}
	v := t.val
	switch k {
	case types.Int:
		return int(sext(v, 64))
	case types.Int8:
		return int8(v)
	case types.Int16:
		return int16(v)
	case types.Int32:
		return int32(v)
	case types.Int64:
		return int64(v)
	case types.Uint:
		return uint(v)
	case types.Uint8:
		return uint8(v)
	case types.Uint16:
		return uint16(v)
	case types.Uint32:
		return uint32(v)
	case types.Uint64:
		return v
	case types.Uintptr:
		return uintptr(v)
	}
	panic(fmt.Sprintf("mkInt: kind %v", k))
}

func (i *interpreter) boolTerm(v value) *Term {
	switch x := v.(type) {
	case bool:
		return i.ps.tf.boolc(x)
	case symBool:
		return x.t
	}
	panic(fmt.Sprintf("boolTerm: %T", v))
}

func mkBool(t *Term) value {
	if t.isConst() {
		return t.val != 0
	}
	return symBool{t}
}

// asBool resolves a possibly symbolic bool by forking.
func (i *interpreter) asBool(v value) bool {
	switch x := v.(type) {
	case bool:
		return x
	case symBool:
		return i.ps.decide(x.t)
	}
	panic(fmt.Sprintf("asBool: %T", v))
}

func isStrValue(v value) bool {
	switch v.(type) {
	case string, symStr:
		return true
	}
	return false
}

func strLen(v value) int {
	switch x := v.(type) {
	case string:
		return len(x)
	case symStr:
		return len(x.b)
	}
	panic(fmt.Sprintf("strLen: %T", v))
}

// strByte returns the k-th byte of a string value as a term.
func (i *interpreter) strByte(v value, k int) *Term {
	switch x := v.(type) {
	case string:
		return i.ps.tf.bv(uint64(x[k]), 8)
	case symStr:
		return x.b[k]
	}
	panic(fmt.Sprintf("strByte: %T", v))
}

func (i *interpreter) strTerms(v value) []*Term {
	switch x := v.(type) {
	case string:
		b := make([]*Term, len(x))
		for k := 0; k < len(x); k++ {
			b[k] = i.ps.tf.bv(uint64(x[k]), 8)
		}
		return b
	case symStr:
		return x.b
	}
	panic(fmt.Sprintf("strTerms: %T", v))
}

// mkStr normalises: all-constant byte lists become Go strings.
func mkStr(b []*Term) value {
	for _, t := range b {
		if !t.isConst() {
			return symStr{b}
		}
	}
	bs := make([]byte, len(b))
	for k, t := range b {
		bs[k] = byte(t.val)
	}
	return string(bs)
}

func (i *interpreter) strConcat(x, y value) value {
	if xs, ok := x.(string); ok {
		if ys, ok := y.(string); ok {
			return xs + ys
		}
	}
	if strLen(x) == 0 {
		return y
	}
	if strLen(y) == 0 {
		return x
	}
	xb, yb := i.strTerms(x), i.strTerms(y)
	b := make([]*Term, 0, len(xb)+len(yb))
	b = append(b, xb...)
	b = append(b, yb...)
	return mkStr(b)
}

func (i *interpreter) strSlice(x value, lo, hi int) value {
	switch x := x.(type) {
	case string:
		return x[lo:hi]
	case symStr:
		return mkStr(x.b[lo:hi:hi])
	}
	panic("strSlice")
}

func (i *interpreter) strEq(x, y value) *Term {
	tf := i.ps.tf
	if xs, ok := x.(string); ok {
		if ys, ok := y.(string); ok {
			return tf.boolc(xs == ys)
		}
	}
	n := strLen(x)
	if n != strLen(y) {
		return tf.ff
	}
	r := tf.tt
	for k := 0; k < n; k++ {
		c := tf.cmp(opEq, i.strByte(x, k), i.strByte(y, k))
		if c.isFalse() {
			return tf.ff
		}
		r = tf.and(r, c)
	}
	return r
}

// strLess is the lexicographic x < y (orEq: x <= y).
func (i *interpreter) strLess(x, y value, orEq bool) *Term {
	tf := i.ps.tf
	nx, ny := strLen(x), strLen(y)
	n := nx
	if ny < n {
		n = ny
	}
	// tail value once the common prefix is equal
	var r *Term
	if orEq {
		r = tf.boolc(nx <= ny)
	} else {
		r = tf.boolc(nx < ny)
	}
	for k := n - 1; k >= 0; k-- {
		a, b := i.strByte(x, k), i.strByte(y, k)
		r = tf.ite(tf.cmp(opULt, a, b), tf.tt, tf.ite(tf.cmp(opEq, a, b), r, tf.ff))
	}
	return r
}

// toGoString returns the concrete Go string of a string value, forking is
// not attempted: symbolic strings are unsupported at this call site.
func (i *interpreter) concreteString(v value, what string) string {
	if s, ok := v.(string); ok {
		return s
	}
	panic(pathAbort{"unsupported", "symbolic string reaches " + what})
}

// ---------------------------------------------------------------- binop

func (i *interpreter) symBinop(op token.Token, t types.Type, x, y value) value {
	tf := i.ps.tf
	if isStrValue(x) {
		switch op {
		case token.ADD:
			return i.strConcat(x, y)
		case token.EQL:
			return mkBool(i.strEq(x, y))
		case token.NEQ:
			return mkBool(tf.not(i.strEq(x, y)))
		case token.LSS:
			return mkBool(i.strLess(x, y, false))
		case token.LEQ:
			return mkBool(i.strLess(x, y, true))
		case token.GTR:
			return mkBool(i.strLess(y, x, false))
		case token.GEQ:
			return mkBool(i.strLess(y, x, true))
		}
		panic(fmt.Sprintf("symBinop: string op %s", op))
	}
	switch x.(type) {
	case bool, symBool:
		a, b := i.boolTerm(x), i.boolTerm(y)
		switch op {
		case token.EQL:
			return mkBool(tf.beq(a, b))
		case token.NEQ:
			return mkBool(tf.not(tf.beq(a, b)))
		case token.AND:
			return mkBool(tf.and(a, b))
		case token.OR:
			return mkBool(tf.or(a, b))
		}
		panic(fmt.Sprintf("symBinop: bool op %s", op))
	}
	if !isIntValue(x) {
		// composite comparison containing symbolic parts
		switch op {
		case token.EQL:
			return mkBool(i.eqTerm(t, x, y))
		case token.NEQ:
			return mkBool(tf.not(i.eqTerm(t, x, y)))
		}
		panic(pathAbort{"unsupported", fmt.Sprintf("symbolic binop %s on %T", op, x)})
	}
	a, k := i.intTerm(x)
	signed := kindSigned(k)
	if op == token.SHL || op == token.SHR {
		c, ck := i.intTerm(y)
		if kindSigned(ck) {
			if i.ps.decide(tf.cmp(opSLt, c, tf.bv(0, c.w))) {
				panic(rtPanic("runtime error: negative shift amount"))
			}
		}
		// evaluate at 64 bits so that an over-wide count saturates correctly
		a64 := tf.resize(a, 64, signed)
		c64 := tf.resize(c, 64, false)
		var r *Term
		if op == token.SHL {
			r = tf.bin(opShl, a64, c64)
		} else if signed {
			r = tf.bin(opAShr, a64, c64)
		} else {
			r = tf.bin(opLShr, a64, c64)
		}
		// Go: shifting by >= width gives 0 / sign fill, which the 64-bit
		// evaluation reproduces after truncation except for SHL of narrower
		// types by counts in [w,64): those bits are truncated away, fine.
		return mkInt(tf.resize(r, a.w, false), k)
	}
	b, _ := i.intTerm(y)
	switch op {
	case token.ADD:
		return mkInt(tf.bin(opAdd, a, b), k)
	case token.SUB:
		return mkInt(tf.bin(opSub, a, b), k)
	case token.MUL:
		return mkInt(tf.bin(opMul, a, b), k)
	case token.QUO, token.REM:
		if i.ps.decide(tf.cmp(opEq, b, tf.bv(0, b.w))) {
			panic(rtPanic("runtime error: integer divide by zero"))
		}
		var o opKind
		switch {
		case op == token.QUO && signed:
			o = opSDiv
		case op == token.QUO:
			o = opUDiv
		case signed:
			o = opSRem
		default:
			o = opURem
		}
		return mkInt(tf.bin(o, a, b), k)
	case token.AND:
		return mkInt(tf.bin(opAnd, a, b), k)
	case token.OR:
		return mkInt(tf.bin(opOr, a, b), k)
	case token.XOR:
		return mkInt(tf.bin(opXor, a, b), k)
	case token.AND_NOT:
		return mkInt(tf.bin(opAnd, a, tf.un(opNot, b)), k)
	case token.EQL:
		return mkBool(tf.cmp(opEq, a, b))
	case token.NEQ:
		return mkBool(tf.not(tf.cmp(opEq, a, b)))
	case token.LSS:
		if signed {
			return mkBool(tf.cmp(opSLt, a, b))
		}
		return mkBool(tf.cmp(opULt, a, b))
	case token.LEQ:
		if signed {
			return mkBool(tf.cmp(opSLe, a, b))
		}
		return mkBool(tf.cmp(opULe, a, b))
	case token.GTR:
		if signed {
			return mkBool(tf.cmp(opSLt, b, a))
		}
		return mkBool(tf.cmp(opULt, b, a))
	case token.GEQ:
		if signed {
			return mkBool(tf.cmp(opSLe, b, a))
		}
		return mkBool(tf.cmp(opULe, b, a))
	}
	panic(fmt.Sprintf("symBinop: int op %s", op))
}

// containsSym reports whether a value has a symbolic component reachable
// without following pointers.
func containsSym(v value) bool {
	switch x := v.(type) {
	case symInt, symBool, symStr:
		return true
	case structure:
		for _, e := range x {
			if containsSym(e) {
				return true
			}
		}
	case array:
		for _, e := range x {
			if containsSym(e) {
				return true
			}
		}
	case iface:
		return containsSym(x.v)
	case []value:
		for _, e := range x {
			if containsSym(e) {
				return true
			}
		}
	case tuple:
		for _, e := range x {
			if containsSym(e) {
				return true
			}
		}
	}
	return false
}

// eqTerm is Go's == on comparable values as a Bool term.
func (i *interpreter) eqTerm(t types.Type, x, y value) *Term {
	return i.eqTermG(i.ps.tf.tt, t, x, y)
}

// eqTermG: guard is the condition under which this comparison is reached
// (Go compares struct fields / array elements in order and stops at the
// first difference); comparing uncomparable dynamic types is a run-time
// panic exactly when the guard holds.
func (i *interpreter) eqTermG(guard *Term, t types.Type, x, y value) *Term {
	tf := i.ps.tf
	switch x := x.(type) {
	case bool, symBool:
		return tf.beq(i.boolTerm(x), i.boolTerm(y))
	case symInt, int, int8, int16, int32, int64, uint, uint8, uint16, uint32, uint64, uintptr:
		a, _ := i.intTerm(x)
		b, _ := i.intTerm(y)
		return tf.cmp(opEq, a, b)
	case float32:
		return tf.boolc(x == y.(float32))
	case float64:
		return tf.boolc(x == y.(float64))
	case complex64:
		return tf.boolc(x == y.(complex64))
	case complex128:
		return tf.boolc(x == y.(complex128))
	case string, symStr:
		return i.strEq(x, y)
	case *value:
		return tf.boolc(x == y.(*value))
	case chan value:
		return tf.boolc(x == y.(chan value))
	case structure:
		ys := y.(structure)
		st := t.Underlying().(*types.Struct)
		r := tf.tt
		for k, n := 0, st.NumFields(); k < n; k++ {
			f := st.Field(k)
			if f.Name() == "_" {
				continue
			}
			r = tf.and(r, i.eqTermG(tf.and(guard, r), f.Type(), x[k], ys[k]))
			if r.isFalse() {
				return r
			}
		}
		return r
	case array:
		ya := y.(array)
		et := t.Underlying().(*types.Array).Elem()
		r := tf.tt
		for k := range x {
			r = tf.and(r, i.eqTermG(tf.and(guard, r), et, x[k], ya[k]))
			if r.isFalse() {
				return r
			}
		}
		return r
	case iface:
		yi := y.(iface)
		if !sameType(x.t, yi.t) {
			return tf.ff
		}
		if x.t == nil {
			return tf.tt
		}
		if !types.Comparable(x.t) {
			if i.ps.decide(guard) {
				panic(rtPanic("runtime error: comparing uncomparable type " + typeName(x.t)))
			}
			return tf.ff
		}
		return i.eqTermG(guard, x.t, x.v, yi.v)
	case rtype:
		return tf.boolc(types.Identical(x.t, y.(rtype).t))
	}
	panic(fmt.Sprintf("comparing uncomparable type %s (%T)", t, x))
}

// ---------------------------------------------------------------- conversions

// encodeRune: the UTF-8 encoding of a symbolic code point r (64-bit term,
// already sign-/zero-extended).  Out-of-range values and surrogates encode
// as U+FFFD, as in Go.
func (i *interpreter) encodeRune(r *Term) value {
	tf := i.ps.tf
	c := func(v uint64) *Term { return tf.bv(v, 64) }
	lt := func(v uint64) bool { return i.ps.decide(tf.cmp(opULt, r, c(v))) }
	b := func(t *Term) *Term { return tf.resize(t, 8, false) }
	shr := func(n uint64) *Term { return tf.bin(opLShr, r, c(n)) }
	cont := func(t *Term) *Term { return b(tf.bin(opOr, c(0x80), tf.bin(opAnd, t, c(0x3F)))) }
	switch {
	case lt(0x80):
		return mkStr([]*Term{b(r)})
	case lt(0x800):
		return mkStr([]*Term{b(tf.bin(opOr, c(0xC0), shr(6))), cont(r)})
	case lt(0x10000):
		if !lt(0xD800) && lt(0xE000) {
			return "\uFFFD"
		}
		return mkStr([]*Term{b(tf.bin(opOr, c(0xE0), shr(12))), cont(shr(6)), cont(r)})
	case lt(0x110000):
		return mkStr([]*Term{b(tf.bin(opOr, c(0xF0), shr(18))), cont(shr(12)), cont(shr(6)), cont(r)})
	}
	return "\uFFFD"
}

func (i *interpreter) symConv(t_dst, t_src types.Type, x value) value {
	tf := i.ps.tf
	ut_dst := t_dst.Underlying()
	switch v := x.(type) {
	case symInt:
		switch d := ut_dst.(type) {
		case *types.Basic:
			if d.Info()&types.IsInteger != 0 {
				return mkInt(tf.resize(v.t, kindWidth(d.Kind()), kindSigned(v.k)), normKind(d.Kind()))
			}
			if d.Kind() == types.String {
				// string(rune): UTF-8 encoding, the length class is a decision
				return i.encodeRune(tf.resize(v.t, 64, kindSigned(v.k)))
			}
		}
		panic(pathAbort{"unsupported", fmt.Sprintf("conversion of symbolic int to %s", t_dst)})
	case symStr:
		switch d := ut_dst.(type) {
		case *types.Basic:
			if d.Kind() == types.String {
				return v
			}
		case *types.Slice:
			switch d.Elem().Underlying().(*types.Basic).Kind() {
			case types.Byte:
				res := make([]value, len(v.b))
				for k, b := range v.b {
					res[k] = mkInt(b, types.Uint8)
				}
				return res
			case types.Rune:
				var res []value
				for _, b := range v.b {
					if !i.ps.decide(tf.cmp(opULt, b, tf.bv(0x80, 8))) {
						panic(pathAbort{"unsupported", "[]rune(symbolic non-ASCII string)"})
					}
					res = append(res, mkInt(tf.resize(b, 32, false), types.Int32))
				}
				return res
			}
		}
		panic(pathAbort{"unsupported", fmt.Sprintf("conversion of symbolic string to %s", t_dst)})
	case []value:
		// []byte / []rune with symbolic elements -> string
		if b, ok := ut_dst.(*types.Basic); ok && b.Kind() == types.String {
			ek := t_src.Underlying().(*types.Slice).Elem().Underlying().(*types.Basic).Kind()
			bs := make([]*Term, 0, len(v))
			for _, e := range v {
				et, _ := i.intTerm(e)
				if ek == types.Rune {
					if !i.ps.decide(tf.cmp(opULt, et, tf.bv(0x80, et.w))) {
						panic(pathAbort{"unsupported", "string([]rune) with symbolic non-ASCII rune"})
					}
					et = tf.resize(et, 8, false)
				}
				bs = append(bs, et)
			}
			return mkStr(bs)
		}
	}
	panic(pathAbort{"unsupported", fmt.Sprintf("symbolic conversion %s -> %s (%T)", t_src, t_dst, x)})
}

func normKind(k types.BasicKind) types.BasicKind {
	switch k {
	case types.UntypedInt:
		return types.Int
	case types.UntypedRune:
		return types.Int32
	}
	return k
}

// ---------------------------------------------------------------- decimal rendering

// itoa renders an integer value in decimal; for a symbolic value the number
// of digits is resolved by forking and each digit is a term.
func (i *interpreter) itoa(v value) value {
	if !isSym(v) {
		if _, k := i.intTerm(v); kindSigned(k) {
			return strconv.FormatInt(asInt64(v), 10)
		}
		t, _ := i.intTerm(v)
		return strconv.FormatUint(t.val, 10)
	}
	tf := i.ps.tf
	sv := v.(symInt)
	signed := kindSigned(sv.k)
	x := tf.resize(sv.t, 64, signed)
	var out []*Term
	mag := x
	if signed && i.ps.decide(tf.cmp(opSLt, x, tf.bv(0, 64))) {
		out = append(out, tf.bv('-', 8))
		mag = tf.un(opNeg, x) // as unsigned magnitude (MinInt64 maps to 2^63)
	}
	// number of digits
	nd := 20
	p := uint64(10)
	for d := 1; d < 20; d++ {
		if i.ps.decide(tf.cmp(opULt, mag, tf.bv(p, 64))) {
			nd = d
			break
		}
		p *= 10
	}
	digits := make([]*Term, nd)
	cur := mag
	ten := tf.bv(10, 64)
	for d := nd - 1; d >= 0; d-- {
		dig := tf.bin(opURem, cur, ten)
		digits[d] = tf.bin(opAdd, tf.resize(dig, 8, false), tf.bv('0', 8))
		cur = tf.bin(opUDiv, cur, ten)
	}
	out = append(out, digits...)
	return mkStr(out)
}
