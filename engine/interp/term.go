package interp

// Hash-consed SMT terms over fixed-width bit-vectors (width 1..64) and Bool.
// One termFactory per worker; terms never cross workers.

import (
	"fmt"
	"math/bits"
	"strings"
)

type opKind uint8

const (
	opConst opKind = iota // BV or Bool constant (val)
	opVar                 // declared constant (name)
	// BV -> BV
	opAdd
	opSub
	opMul
	opUDiv
	opSDiv
	opURem
	opSRem
	opAnd
	opOr
	opXor
	opNot // bvnot
	opNeg
	opShl
	opLShr
	opAShr
	opZExt  // to width w
	opSExt  // to width w
	opTrunc // extract low w bits
	opIte   // (ite c a b), BV or Bool result
	// -> Bool
	opEq
	opULt
	opSLt
	opULe
	opSLe
	opBAnd
	opBOr
	opBNot
)

var opNames = map[opKind]string{
	opAdd: "bvadd", opSub: "bvsub", opMul: "bvmul", opUDiv: "bvudiv", opSDiv: "bvsdiv",
	opURem: "bvurem", opSRem: "bvsrem", opAnd: "bvand", opOr: "bvor", opXor: "bvxor",
	opNot: "bvnot", opNeg: "bvneg", opShl: "bvshl", opLShr: "bvlshr", opAShr: "bvashr",
	opIte: "ite", opEq: "=", opULt: "bvult", opSLt: "bvslt", opULe: "bvule", opSLe: "bvsle",
	opBAnd: "and", opBOr: "or", opBNot: "not",
}

// Term is an immutable DAG node.  w == 0 means sort Bool.
type Term struct {
	op   opKind
	w    uint8 // bit width; 0 = Bool
	id   uint32
	val  uint64 // opConst
	name string // opVar
	a    [3]*Term
	na   uint8
}

func (t *Term) isConst() bool { return t.op == opConst }
func (t *Term) isBool() bool  { return t.w == 0 }
func (t *Term) isTrue() bool  { return t.op == opConst && t.w == 0 && t.val == 1 }
func (t *Term) isFalse() bool { return t.op == opConst && t.w == 0 && t.val == 0 }

type termKey struct {
	op      opKind
	w       uint8
	val     uint64
	name    string
	a, b, c uint32
}

type termFactory struct {
	tab    map[termKey]*Term
	nextID uint32
	vars   []*Term // in declaration order
	varByN map[string]*Term
	tt, ff *Term
}

func newTermFactory() *termFactory {
	f := &termFactory{tab: make(map[termKey]*Term), varByN: make(map[string]*Term), nextID: 1}
	f.tt = f.mk(opConst, 0, 1, "")
	f.ff = f.mk(opConst, 0, 0, "")
	return f
}

func (f *termFactory) mk(op opKind, w uint8, val uint64, name string, args ...*Term) *Term {
	k := termKey{op: op, w: w, val: val, name: name}
	if len(args) > 0 {
		k.a = args[0].id
	}
	if len(args) > 1 {
		k.b = args[1].id
	}
	if len(args) > 2 {
		k.c = args[2].id
	}
	if t, ok := f.tab[k]; ok {
		return t
	}
	t := &Term{op: op, w: w, id: f.nextID, val: val, name: name, na: uint8(len(args))}
	f.nextID++
	copy(t.a[:], args)
	f.tab[k] = t
	return t
}

func mask(w uint8) uint64 {
	if w >= 64 {
		return ^uint64(0)
	}
	return (uint64(1) << w) - 1
}

func sext(v uint64, w uint8) int64 {
	if w >= 64 {
		return int64(v)
	}
	sh := 64 - uint(w)
	return int64(v<<sh) >> sh
}

func (f *termFactory) bv(v uint64, w uint8) *Term { return f.mk(opConst, w, v&mask(w), "") }
func (f *termFactory) boolc(b bool) *Term {
	if b {
		return f.tt
	}
	return f.ff
}

// variable declares (or returns) a named constant.  w==0: Bool.
func (f *termFactory) variable(name string, w uint8) *Term {
	if t, ok := f.varByN[name]; ok {
		if t.w != w {
			panic(fmt.Sprintf("symgo: variable %s redeclared with width %d (was %d)", name, w, t.w))
		}
		return t
	}
	t := f.mk(opVar, w, 0, name)
	f.varByN[name] = t
	f.vars = append(f.vars, t)
	return t
}

// evalBin computes a binary BV op on constants with SMT-LIB semantics.
func evalBin(op opKind, w uint8, x, y uint64) uint64 {
	m := mask(w)
	switch op {
	case opAdd:
		return (x + y) & m
	case opSub:
		return (x - y) & m
	case opMul:
		return (x * y) & m
	case opUDiv:
		if y == 0 {
			return m
		}
		return (x / y) & m
	case opURem:
		if y == 0 {
			return x
		}
		return (x % y) & m
	case opSDiv:
		sx, sy := sext(x, w), sext(y, w)
		if sy == 0 {
			if sx >= 0 {
				return m
			}
			return 1
		}
		if sy == -1 {
			return uint64(-sx) & m
		}
		return uint64(sx/sy) & m
	case opSRem:
		sx, sy := sext(x, w), sext(y, w)
		if sy == 0 {
			return x
		}
		if sy == -1 {
			return 0
		}
		return uint64(sx%sy) & m
	case opAnd:
		return x & y
	case opOr:
		return x | y
	case opXor:
		return x ^ y
	case opShl:
		if y >= uint64(w) {
			return 0
		}
		return (x << y) & m
	case opLShr:
		if y >= uint64(w) {
			return 0
		}
		return (x >> y) & m
	case opAShr:
		sx := sext(x, w)
		if y >= uint64(w) {
			if sx < 0 {
				return m
			}
			return 0
		}
		return uint64(sx>>y) & m
	}
	panic("evalBin")
}

func evalCmp(op opKind, w uint8, x, y uint64) bool {
	switch op {
	case opEq:
		return x == y
	case opULt:
		return x < y
	case opULe:
		return x <= y
	case opSLt:
		return sext(x, w) < sext(y, w)
	case opSLe:
		return sext(x, w) <= sext(y, w)
	}
	panic("evalCmp")
}

func commutative(op opKind) bool {
	switch op {
	case opAdd, opMul, opAnd, opOr, opXor, opEq, opBAnd, opBOr:
		return true
	}
	return false
}

func (f *termFactory) bin(op opKind, x, y *Term) *Term {
	if x.w != y.w {
		panic(fmt.Sprintf("symgo: width mismatch %s: %d vs %d", opNames[op], x.w, y.w))
	}
	w := x.w
	if x.isConst() && y.isConst() {
		return f.bv(evalBin(op, w, x.val, y.val), w)
	}
	if commutative(op) && (x.isConst() || (!y.isConst() && x.id > y.id)) {
		x, y = y, x
	}
	// y const identities
	if y.isConst() {
		switch op {
		case opAdd, opSub, opOr, opXor, opShl, opLShr, opAShr:
			if y.val == 0 {
				return x
			}
		case opMul:
			if y.val == 1 {
				return x
			}
			if y.val == 0 {
				return y
			}
		case opAnd:
			if y.val == mask(w) {
				return x
			}
			if y.val == 0 {
				return y
			}
		case opUDiv, opSDiv:
			if y.val == 1 {
				return x
			}
		}
	}
	if x == y {
		switch op {
		case opSub, opXor:
			return f.bv(0, w)
		case opAnd, opOr:
			return x
		}
	}
	return f.mk(op, w, 0, "", x, y)
}

func (f *termFactory) cmp(op opKind, x, y *Term) *Term {
	if x.w != y.w {
		panic(fmt.Sprintf("symgo: width mismatch %s: %d vs %d", opNames[op], x.w, y.w))
	}
	if x.w == 0 && op == opEq {
		return f.beq(x, y)
	}
	if x.isConst() && y.isConst() {
		return f.boolc(evalCmp(op, x.w, x.val, y.val))
	}
	if x == y {
		switch op {
		case opEq, opULe, opSLe:
			return f.tt
		case opULt, opSLt:
			return f.ff
		}
	}
	if op == opEq && (x.isConst() || (!y.isConst() && x.id > y.id)) {
		x, y = y, x
	}
	// zext(a)==const / trunc folding keeps byte comparisons small
	if op == opEq && y.isConst() && (x.op == opZExt) {
		in := x.a[0]
		if y.val > mask(in.w) {
			return f.ff
		}
		return f.cmp(opEq, in, f.bv(y.val, in.w))
	}
	if (op == opULt || op == opULe) && x.op == opZExt && y.op == opZExt && x.a[0].w == y.a[0].w {
		return f.cmp(op, x.a[0], y.a[0])
	}
	return f.mk(op, 0, 0, "", x, y)
}

func (f *termFactory) beq(x, y *Term) *Term {
	if x.isConst() {
		x, y = y, x
	}
	if y.isConst() {
		if y.val == 1 {
			return x
		}
		return f.not(x)
	}
	if x == y {
		return f.tt
	}
	if x.id > y.id {
		x, y = y, x
	}
	return f.mk(opEq, 0, 0, "", x, y)
}

func (f *termFactory) not(x *Term) *Term {
	if x.isConst() {
		return f.boolc(x.val == 0)
	}
	if x.op == opBNot {
		return x.a[0]
	}
	return f.mk(opBNot, 0, 0, "", x)
}

func (f *termFactory) and(x, y *Term) *Term {
	if x.isFalse() || y.isFalse() {
		return f.ff
	}
	if x.isTrue() {
		return y
	}
	if y.isTrue() {
		return x
	}
	if x == y {
		return x
	}
	if x.id > y.id {
		x, y = y, x
	}
	return f.mk(opBAnd, 0, 0, "", x, y)
}

func (f *termFactory) or(x, y *Term) *Term {
	if x.isTrue() || y.isTrue() {
		return f.tt
	}
	if x.isFalse() {
		return y
	}
	if y.isFalse() {
		return x
	}
	if x == y {
		return x
	}
	if x.id > y.id {
		x, y = y, x
	}
	return f.mk(opBOr, 0, 0, "", x, y)
}

func (f *termFactory) ite(c, x, y *Term) *Term {
	if c.isTrue() {
		return x
	}
	if c.isFalse() {
		return y
	}
	if x == y {
		return x
	}
	if x.w == 0 {
		if x.isTrue() && y.isFalse() {
			return c
		}
		if x.isFalse() && y.isTrue() {
			return f.not(c)
		}
	}
	return f.mk(opIte, x.w, 0, "", c, x, y)
}

func (f *termFactory) un(op opKind, x *Term) *Term {
	if x.isConst() {
		switch op {
		case opNot:
			return f.bv(^x.val, x.w)
		case opNeg:
			return f.bv(-x.val, x.w)
		}
	}
	if x.op == op { // double negation
		return x.a[0]
	}
	return f.mk(op, x.w, 0, "", x)
}

// resize converts x to width w (zero- or sign-extending, or truncating).
func (f *termFactory) resize(x *Term, w uint8, signed bool) *Term {
	if x.w == w {
		return x
	}
	if x.isConst() {
		if w > x.w && signed {
			return f.bv(uint64(sext(x.val, x.w)), w)
		}
		return f.bv(x.val, w)
	}
	if w < x.w {
		// trunc(ext(y)) where y.w == w  ->  y
		if (x.op == opZExt || x.op == opSExt) && x.a[0].w == w {
			return x.a[0]
		}
		if (x.op == opZExt || x.op == opSExt) && x.a[0].w < w {
			return f.resize(x.a[0], w, x.op == opSExt)
		}
		return f.mk(opTrunc, w, 0, "", x)
	}
	if signed {
		return f.mk(opSExt, w, 0, "", x)
	}
	if x.op == opZExt {
		return f.mk(opZExt, w, 0, "", x.a[0])
	}
	return f.mk(opZExt, w, 0, "", x)
}

// ---------------------------------------------------------------- printing

func sortOf(w uint8) string {
	if w == 0 {
		return "Bool"
	}
	return fmt.Sprintf("(_ BitVec %d)", w)
}

func constText(t *Term) string {
	if t.w == 0 {
		if t.val == 1 {
			return "true"
		}
		return "false"
	}
	return fmt.Sprintf("(_ bv%d %d)", t.val, t.w)
}

// ref returns the SMT text used to refer to t once its definition was emitted.
func (t *Term) ref() string {
	switch t.op {
	case opConst:
		return constText(t)
	case opVar:
		return t.name
	}
	return fmt.Sprintf("t!%d", t.id)
}

// body returns the one-level SMT expression of a non-leaf term.
func (t *Term) body() string {
	switch t.op {
	case opZExt:
		return fmt.Sprintf("((_ zero_extend %d) %s)", t.w-t.a[0].w, t.a[0].ref())
	case opSExt:
		return fmt.Sprintf("((_ sign_extend %d) %s)", t.w-t.a[0].w, t.a[0].ref())
	case opTrunc:
		return fmt.Sprintf("((_ extract %d 0) %s)", t.w-1, t.a[0].ref())
	}
	var sb strings.Builder
	sb.WriteByte('(')
	sb.WriteString(opNames[t.op])
	for i := 0; i < int(t.na); i++ {
		sb.WriteByte(' ')
		sb.WriteString(t.a[i].ref())
	}
	sb.WriteByte(')')
	return sb.String()
}

// String renders the full tree (for diagnostics / samples; may be large).
func (t *Term) String() string {
	var sb strings.Builder
	t.write(&sb, 0)
	return sb.String()
}

func (t *Term) write(sb *strings.Builder, depth int) {
	if t.op == opConst || t.op == opVar {
		sb.WriteString(t.ref())
		return
	}
	if depth > 12 {
		sb.WriteString("…")
		return
	}
	switch t.op {
	case opZExt:
		fmt.Fprintf(sb, "((_ zero_extend %d) ", t.w-t.a[0].w)
	case opSExt:
		fmt.Fprintf(sb, "((_ sign_extend %d) ", t.w-t.a[0].w)
	case opTrunc:
		fmt.Fprintf(sb, "((_ extract %d 0) ", t.w-1)
	default:
		sb.WriteByte('(')
		sb.WriteString(opNames[t.op])
		sb.WriteByte(' ')
	}
	for i := 0; i < int(t.na); i++ {
		if i > 0 {
			sb.WriteByte(' ')
		}
		t.a[i].write(sb, depth+1)
	}
	sb.WriteByte(')')
}

// ---------------------------------------------------------------- evaluation

// eval computes t under a total assignment (missing variables read as 0).
func (t *Term) eval(asg map[string]uint64, memo map[uint32]uint64) uint64 {
	switch t.op {
	case opConst:
		return t.val
	case opVar:
		return asg[t.name] & maskOrBool(t.w)
	}
	if v, ok := memo[t.id]; ok {
		return v
	}
	var r uint64
	switch t.op {
	case opAdd, opSub, opMul, opUDiv, opSDiv, opURem, opSRem, opAnd, opOr, opXor, opShl, opLShr, opAShr:
		r = evalBin(t.op, t.w, t.a[0].eval(asg, memo), t.a[1].eval(asg, memo))
	case opNot:
		r = ^t.a[0].eval(asg, memo) & mask(t.w)
	case opNeg:
		r = -t.a[0].eval(asg, memo) & mask(t.w)
	case opZExt:
		r = t.a[0].eval(asg, memo)
	case opSExt:
		r = uint64(sext(t.a[0].eval(asg, memo), t.a[0].w)) & mask(t.w)
	case opTrunc:
		r = t.a[0].eval(asg, memo) & mask(t.w)
	case opIte:
		if t.a[0].eval(asg, memo) != 0 {
			r = t.a[1].eval(asg, memo)
		} else {
			r = t.a[2].eval(asg, memo)
		}
	case opEq, opULt, opSLt, opULe, opSLe:
		if evalCmp(t.op, t.a[0].w, t.a[0].eval(asg, memo), t.a[1].eval(asg, memo)) {
			r = 1
		}
	case opBAnd:
		if t.a[0].eval(asg, memo) != 0 && t.a[1].eval(asg, memo) != 0 {
			r = 1
		}
	case opBOr:
		if t.a[0].eval(asg, memo) != 0 || t.a[1].eval(asg, memo) != 0 {
			r = 1
		}
	case opBNot:
		if t.a[0].eval(asg, memo) == 0 {
			r = 1
		}
	default:
		panic("eval: op")
	}
	memo[t.id] = r
	return r
}

func maskOrBool(w uint8) uint64 {
	if w == 0 {
		return 1
	}
	return mask(w)
}

var _ = bits.Len
