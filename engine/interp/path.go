package interp

// Path exploration by decision-prefix re-execution.
//
// A path is identified by the list of outcomes at its symbolic decision
// points.  A worker re-executes the harness from its entry forcing a prefix;
// at the first fresh decision it asks the solver which outcomes are feasible
// under the path condition, continues with one and enqueues the others.

import (
	"fmt"
	"sort"
	"strings"
	"time"

	"golang.org/x/tools/go/ssa"
)

// engine-level aborts; they are never visible to the target's recover().
type pathAbort struct {
	kind string // "infeasible" (assume failed), "bound", "unsupported", "unknown", "violation", "done"
	msg  string
}

func (p pathAbort) String() string { return p.kind + ": " + p.msg }

// A Violation is a failed obligation or an unexpected panic with a witness.
type Violation struct {
	Harness    string            `json:"harness"`
	Kind       string            `json:"kind"` // assert | panic | bound | exit
	Msg        string            `json:"msg"`
	Assignment map[string]uint64 `json:"assignment"`
	Choices    []string          `json:"choices,omitempty"`
	Pos        string            `json:"pos,omitempty"`
	Decisions  []int             `json:"decisions"`
	Stack      []string          `json:"stack,omitempty"`
}

type symVar struct {
	name string // harness-visible name
	t    *Term
}

// pathState is the per-path part of an interpreter.
type pathState struct {
	tf       *termFactory
	sol      *solver
	prefix   []int   // forced outcomes
	taken    []int   // outcomes so far (prefix of taken == prefix)
	forks    [][]int // new prefixes produced by this path
	pc       []*Term
	asserted int // pc[:asserted] already sent to solver
	vars     []symVar
	varIdx   map[string]int
	model    map[string]uint64 // last known model of pc (nil = none)
	covers   map[string]int
	notes    []string // verifNote output (samples)
	choices  []string

	steps, maxSteps int64
	depth, maxDepth int
	nForks          int
	obligations     int
	discharged      int
	violations      []Violation
	status          string // ok | infeasible | bound | unsupported | unknown | violation | panic | exit
	statusMsg       string
	funcs           map[*ssa.Function]bool
	choiceVals      map[string]int
	inconclusive    []string

	// virtual environment
	vfs          []vfile
	fileOrder    []string
	writes       []fsWrite
	stdout       []value // string values
	stderr       []string
	goPanic      bool
	reads        []value
	outputs      []string
	outTexts     []string
	overridesOn  bool
	forcedPerm   int
	nextClock    int64
	pathDeadline time.Time
	sample       *PathSample
	exitCode     int
	exited       bool
	osArgs       []value
	failRead     map[string]bool
	failWrite    map[string]bool
	oracle       Oracles
	iterEvents   int
}

type fsWrite struct {
	path value
	data value
	ok   bool
}

// Oracles selects how behaviour the Go spec leaves open is explored.
type Oracles struct {
	MapOrder       bool   // map iteration order is a nondet choice
	MapOrderEvents int    // size of the window of iteration events that fork
	MapOrderFrom   int    // events before this index keep insertion order
	MapOrderMode   string // "" (window), "reverse", "rotate": one global strategy
	Capacity       bool   // append growth is a nondet choice in [needed, needed+2]
}

func (ps *pathState) newVar(name string, w uint8) *Term {
	if i, ok := ps.varIdx[name]; ok {
		return ps.vars[i].t
	}
	smt := fmt.Sprintf("v%d_%s", len(ps.vars), sanitize(name))
	t := ps.tf.variable(smt, w)
	ps.varIdx[name] = len(ps.vars)
	ps.vars = append(ps.vars, symVar{name, t})
	return t
}

func sanitize(s string) string {
	var sb strings.Builder
	for _, c := range s {
		if c >= 'a' && c <= 'z' || c >= 'A' && c <= 'Z' || c >= '0' && c <= '9' || c == '_' {
			sb.WriteRune(c)
		} else {
			sb.WriteByte('.')
		}
	}
	return sb.String()
}

func (ps *pathState) flushPC() {
	for ; ps.asserted < len(ps.pc); ps.asserted++ {
		ps.sol.assert(ps.pc[ps.asserted])
	}
}

func (ps *pathState) addPC(c *Term) {
	if c.isTrue() {
		return
	}
	ps.pc = append(ps.pc, c)
	if ps.model != nil {
		if c.eval(ps.model, map[uint32]uint64{}) == 0 {
			ps.model = nil
		}
	}
}

func (ps *pathState) varTerms() []*Term {
	ts := make([]*Term, len(ps.vars))
	for i, v := range ps.vars {
		ts[i] = v.t
	}
	return ts
}

// feasible asks whether pc ∧ c is satisfiable.
func (ps *pathState) checkClock() {
	if !ps.pathDeadline.IsZero() && time.Now().After(ps.pathDeadline) {
		panic(pathAbort{"unknown", "path wall-clock limit exceeded (solver-bound path)"})
	}
}

func (ps *pathState) feasible(c *Term) satResult {
	ps.checkClock()
	if c.isTrue() {
		// pc itself is assumed satisfiable (invariant of exploration)
		return resSat
	}
	if c.isFalse() {
		return resUnsat
	}
	if ps.model != nil && c.eval(ps.model, map[uint32]uint64{}) != 0 {
		return resSat
	}
	ps.flushPC()
	r, m := ps.sol.check(c, ps.varTerms())
	if r == resSat {
		ps.model = m
	}
	return r
}

// decideN picks one of n outcomes whose conditions are conds[i]; the
// conditions must be mutually exclusive and exhaustive under the pc.
func (ps *pathState) decideN(conds []*Term) int {
	// constant fast path
	nz := -1
	cnt := 0
	for i, c := range conds {
		if !c.isFalse() {
			nz = i
			cnt++
		}
	}
	if cnt == 1 {
		return nz
	}
	if cnt == 0 {
		panic(pathAbort{"infeasible", "no outcome"})
	}
	k := len(ps.taken)
	if k < len(ps.prefix) {
		o := ps.prefix[k]
		ps.taken = append(ps.taken, o)
		ps.addPC(conds[o])
		return o
	}
	// fresh decision
	chosen := -1
	var others []int
	for i, c := range conds {
		if c.isFalse() {
			continue
		}
		switch ps.feasible(c) {
		case resSat:
			if chosen < 0 {
				chosen = i
			} else {
				others = append(others, i)
			}
		case resUnknown:
			ps.inconclusive = append(ps.inconclusive, "solver unknown at decision")
		}
	}
	if chosen < 0 {
		panic(pathAbort{"infeasible", "no feasible outcome"})
	}
	for _, o := range others {
		np := make([]int, k+1)
		copy(np, ps.taken)
		np[k] = o
		ps.forks = append(ps.forks, np)
		ps.nForks++
	}
	ps.taken = append(ps.taken, chosen)
	// the model found for `chosen` (if any) stays valid only if it was the last query; re-evaluate
	ps.addPC(conds[chosen])
	return chosen
}

// decide resolves a symbolic boolean.
func (ps *pathState) decide(c *Term) bool {
	if c.isTrue() {
		return true
	}
	if c.isFalse() {
		return false
	}
	return ps.decideN([]*Term{c, ps.tf.not(c)}) == 0
}

// concretize forks over the feasible values of t inside [lo,hi]; values
// outside yield ok=false (one extra path).
func (ps *pathState) concretize(t *Term, signed bool, lo, hi int64) (int64, bool) {
	if t.isConst() {
		v := int64(t.val)
		if signed {
			v = sext(t.val, t.w)
		}
		return v, v >= lo && v <= hi
	}
	n := int(hi - lo + 1)
	if n < 0 || n > 4096 {
		panic(pathAbort{"unsupported", fmt.Sprintf("concretize range too large [%d,%d]", lo, hi)})
	}
	conds := make([]*Term, n+1)
	any := ps.tf.ff
	for i := 0; i < n; i++ {
		conds[i] = ps.tf.cmp(opEq, t, ps.tf.bv(uint64(lo+int64(i)), t.w))
		any = ps.tf.or(any, conds[i])
	}
	conds[n] = ps.tf.not(any)
	o := ps.decideN(conds)
	if o == n {
		return 0, false
	}
	return lo + int64(o), true
}

func (ps *pathState) assume(c *Term) {
	if c.isTrue() {
		return
	}
	if c.isFalse() {
		panic(pathAbort{"infeasible", "assume(false)"})
	}
	k := len(ps.taken)
	if k < len(ps.prefix) {
		// a recorded assume: outcome 0 = holds
		ps.taken = append(ps.taken, ps.prefix[k])
		ps.addPC(c)
		return
	}
	switch ps.feasible(c) {
	case resUnsat:
		panic(pathAbort{"infeasible", "assumption unsatisfiable"})
	case resUnknown:
		ps.inconclusive = append(ps.inconclusive, "solver unknown at assume")
	}
	ps.taken = append(ps.taken, 0)
	ps.addPC(c)
}

// check discharges an obligation: pc ⇒ c must be valid.
func (ps *pathState) check(c *Term, msg string, fr *frame) {
	ps.obligations++
	if c.isTrue() {
		ps.discharged++
		return
	}
	neg := ps.tf.not(c)
	var r satResult
	var m map[string]uint64
	if neg.isTrue() {
		r = resSat
		if ps.model != nil {
			m = ps.model
		} else {
			ps.flushPC()
			r, m = ps.sol.check(ps.tf.tt, ps.varTerms())
			if r != resSat {
				// pc not known satisfiable: cannot produce witness
				r = resUnknown
			}
		}
	} else {
		ps.flushPC()
		r, m = ps.sol.check(neg, ps.varTerms())
	}
	switch r {
	case resUnsat:
		ps.discharged++
		// c now follows from pc; no need to add it
	case resSat:
		ps.recordViolation("assert", msg, m, fr)
		panic(pathAbort{"violation", msg})
	default:
		ps.inconclusive = append(ps.inconclusive, "solver unknown at obligation: "+msg)
		ps.addPC(c)
	}
}

func (ps *pathState) currentModel() map[string]uint64 {
	if ps.model != nil {
		return ps.model
	}
	ps.flushPC()
	r, m := ps.sol.check(ps.tf.tt, ps.varTerms())
	if r == resSat {
		ps.model = m
		return m
	}
	return nil
}

func (ps *pathState) recordViolation(kind, msg string, m map[string]uint64, fr *frame) {
	v := Violation{Kind: kind, Msg: msg, Assignment: map[string]uint64{}}
	for _, sv := range ps.vars {
		val := uint64(0)
		if m != nil {
			val = m[sv.t.name]
		}
		v.Assignment[sv.name] = val
	}
	for n, c := range ps.choiceVals {
		v.Assignment[n] = uint64(c)
	}
	v.Choices = append([]string(nil), ps.choices...)
	v.Decisions = append([]int(nil), ps.taken...)
	for f := fr; f != nil && len(v.Stack) < 12; f = f.caller {
		v.Stack = append(v.Stack, f.fn.String())
	}
	ps.violations = append(ps.violations, v)
}

func sortedKeys(m map[string]int) []string {
	ks := make([]string, 0, len(m))
	for k := range m {
		ks = append(ks, k)
	}
	sort.Strings(ks)
	return ks
}

// choose is a pure nondeterministic choice among n outcomes (no solver
// variable): the first execution takes 0 and enqueues 1..n-1.
func (ps *pathState) choose(name string, n int) int {
	if n <= 1 {
		return 0
	}
	k := len(ps.taken)
	o := 0
	if k < len(ps.prefix) {
		o = ps.prefix[k]
	} else {
		for alt := 1; alt < n; alt++ {
			np := make([]int, k+1)
			copy(np, ps.taken)
			np[k] = alt
			ps.forks = append(ps.forks, np)
			ps.nForks++
		}
	}
	ps.taken = append(ps.taken, o)
	ps.choices = append(ps.choices, fmt.Sprintf("%s=%d", name, o))
	ps.choiceVals[name] = o
	return o
}

// vfile is one entry of the per-path virtual file system; names may be
// symbolic (lookups compare and fork).
type vfile struct {
	name value
	data value
}

// vfsFind returns the index of the file called name, or -1; may fork.
func (i *interpreter) vfsFind(name value) int {
	for k := len(i.ps.vfs) - 1; k >= 0; k-- {
		c := i.strEq(name, i.ps.vfs[k].name)
		if c.isFalse() {
			continue
		}
		if i.ps.decide(c) {
			return k
		}
	}
	return -1
}

func (i *interpreter) vfsSet(name, data value) {
	if k := i.vfsFind(name); k >= 0 {
		i.ps.vfs[k].data = data
		return
	}
	i.ps.vfs = append(i.ps.vfs, vfile{name, data})
}

// flagged reports whether a (possibly symbolic) name equals one of the
// concrete names in set; may fork.
func (i *interpreter) flagged(set map[string]bool, name value) bool {
	if set["*"] {
		return true
	}
	if s, ok := name.(string); ok {
		return set[s]
	}
	for n := range set {
		if i.ps.decide(i.strEq(name, n)) {
			return true
		}
	}
	return false
}
