package interp

// omap: insertion-ordered association list standing in for every Go map.
// Lookups with a symbolic key compare against each stored key and fork per
// feasible equality; concrete keys are found through an index.  Iteration
// order is insertion order, or an oracle choice (pathState.oracle.MapOrder).

import (
	"fmt"
	"go/types"
	"strings"
	"unsafe"
)

type omap struct {
	kt   types.Type
	keys []value
	vals []value
	idx  map[interface{}]int // canonical concrete key -> position
	nsym int                 // entries whose key has symbolic parts
}

func newOmap(kt types.Type) *omap {
	return &omap{kt: kt, idx: make(map[interface{}]int)}
}

func (m *omap) len() int {
	if m == nil {
		return 0
	}
	return len(m.keys)
}

// ckey returns a Go-comparable canonical form of a fully concrete key.
func ckey(v value) (interface{}, bool) {
	switch x := v.(type) {
	case bool, int, int8, int16, int32, int64, uint, uint8, uint16, uint32, uint64, uintptr,
		float32, float64, complex64, complex128, string, *value, chan value:
		return x, true
	case symInt, symBool, symStr:
		return nil, false
	}
	var sb strings.Builder
	if !encKey(&sb, v) {
		return nil, false
	}
	return "\x00" + sb.String(), true
}

func encKey(sb *strings.Builder, v value) bool {
	switch x := v.(type) {
	case symInt, symBool, symStr:
		return false
	case string:
		fmt.Fprintf(sb, "s%d:%s", len(x), x)
	case *value:
		fmt.Fprintf(sb, "p%x", uintptr(unsafe.Pointer(x)))
	case structure:
		sb.WriteByte('{')
		for _, e := range x {
			if !encKey(sb, e) {
				return false
			}
			sb.WriteByte(',')
		}
		sb.WriteByte('}')
	case array:
		sb.WriteByte('[')
		for _, e := range x {
			if !encKey(sb, e) {
				return false
			}
			sb.WriteByte(',')
		}
		sb.WriteByte(']')
	case iface:
		if x.t == nil {
			sb.WriteString("nil")
		} else {
			fmt.Fprintf(sb, "i<%s>", x.t.String())
			if !encKey(sb, x.v) {
				return false
			}
		}
	case rtype:
		fmt.Fprintf(sb, "rt<%s>", x.t.String())
	default:
		fmt.Fprintf(sb, "%T:%v;", x, x)
	}
	return true
}

// find returns the position of key or -1; may fork.
func (i *interpreter) mapFind(m *omap, key value) int {
	if m == nil {
		return -1
	}
	ck, conc := ckey(key)
	if conc {
		if p, ok := m.idx[ck]; ok {
			return p
		}
		if m.nsym == 0 {
			return -1
		}
	}
	for p, k := range m.keys {
		if conc {
			if _, kc := ckey(k); kc {
				continue // distinct concrete key
			}
		}
		c := i.eqTerm(m.kt, key, k)
		if c.isFalse() {
			continue
		}
		if i.ps.decide(c) {
			return p
		}
	}
	return -1
}

func (i *interpreter) mapLookup(m *omap, key value) (value, bool) {
	p := i.mapFind(m, key)
	if p < 0 {
		return nil, false
	}
	return m.vals[p], true
}

func (i *interpreter) mapInsert(m *omap, key, v value) {
	if m == nil {
		panic(rtPanic("assignment to entry in nil map"))
	}
	p := i.mapFind(m, key)
	if p >= 0 {
		m.vals[p] = v
		return
	}
	m.keys = append(m.keys, key)
	m.vals = append(m.vals, v)
	if ck, conc := ckey(key); conc {
		m.idx[ck] = len(m.keys) - 1
	} else {
		m.nsym++
	}
}

func (i *interpreter) mapDelete(m *omap, key value) {
	p := i.mapFind(m, key)
	if p < 0 {
		return
	}
	if ck, conc := ckey(m.keys[p]); conc {
		delete(m.idx, ck)
	} else {
		m.nsym--
	}
	m.keys = append(m.keys[:p:p], m.keys[p+1:]...)
	m.vals = append(m.vals[:p:p], m.vals[p+1:]...)
	for q := p; q < len(m.keys); q++ {
		if ck, conc := ckey(m.keys[q]); conc {
			m.idx[ck] = q
		}
	}
}

// omapIter iterates over a snapshot of positions in a chosen order.
type omapIter struct {
	m     *omap
	keys  []value
	vals  []value
	order []int
	pos   int
}

func (it *omapIter) next() tuple {
	if it.pos >= len(it.order) {
		return tuple{false, nil, nil}
	}
	p := it.order[it.pos]
	it.pos++
	return tuple{true, it.keys[p], it.vals[p]}
}

var perms3 = [][]int{{0, 1, 2}, {0, 2, 1}, {1, 0, 2}, {1, 2, 0}, {2, 0, 1}, {2, 1, 0}}

func (i *interpreter) mapRange(m *omap) iter {
	n := m.len()
	it := &omapIter{m: m}
	if n == 0 {
		return it
	}
	it.keys = append([]value(nil), m.keys...)
	it.vals = append([]value(nil), m.vals...)
	it.order = make([]int, n)
	for k := range it.order {
		it.order[k] = k
	}
	ps := i.ps
	if ps.forcedPerm >= 0 && n >= 2 {
		// harness-controlled order (site lemmas): permutation number forcedPerm
		// of the insertion order (all 2 / 6 / 24 for 2 / 3 / 4 entries);
		// beyond 4 entries: 0 identity, 1 reverse, else rotate
		switch {
		case n == 2:
			if ps.forcedPerm%2 == 1 {
				it.order = []int{1, 0}
			}
		case n == 3:
			it.order = perms3[ps.forcedPerm%6]
		case n == 4:
			it.order = nthPerm(4, (ps.forcedPerm*7)%24) // *7: the first six already differ in every position
		default:
			switch ps.forcedPerm % 3 {
			case 1:
				for k := range it.order {
					it.order[k] = n - 1 - k
				}
			case 2:
				for k := range it.order {
					it.order[k] = (k + 1) % n
				}
			}
		}
		return it
	}
	if !ps.oracle.MapOrder || n < 2 {
		return it
	}
	ps.iterEvents++
	switch ps.oracle.MapOrderMode {
	case "reverse": // one global strategy: every iteration reversed
		for k := range it.order {
			it.order[k] = n - 1 - k
		}
		return it
	case "rotate":
		for k := range it.order {
			it.order[k] = (k + 1) % n
		}
		return it
	}
	if ps.iterEvents <= ps.oracle.MapOrderFrom || ps.iterEvents > ps.oracle.MapOrderFrom+ps.oracle.MapOrderEvents {
		// outside the forking window: insertion order
		return it
	}
	switch {
	case n == 2:
		if ps.choose(fmt.Sprintf("maporder#%d", ps.iterEvents), 2) == 1 {
			it.order = []int{1, 0}
		}
	case n == 3:
		it.order = perms3[ps.choose(fmt.Sprintf("maporder#%d", ps.iterEvents), 6)]
	default:
		switch ps.choose(fmt.Sprintf("maporder#%d", ps.iterEvents), 3) {
		case 1: // reverse
			for k := range it.order {
				it.order[k] = n - 1 - k
			}
		case 2: // rotate by one
			for k := range it.order {
				it.order[k] = (k + 1) % n
			}
		}
	}
	return it
}

// nthPerm: the k-th permutation of 0..n-1 in lexicographic order (factorial number system).
func nthPerm(n, k int) []int {
	pool := make([]int, n)
	for i := range pool {
		pool[i] = i
	}
	fact := 1
	for i := 2; i < n; i++ {
		fact *= i
	}
	var out []int
	for i := n - 1; i >= 0; i-- {
		j := k / fact
		k %= fact
		out = append(out, pool[j])
		pool = append(pool[:j], pool[j+1:]...)
		if i > 0 {
			fact /= i
		}
	}
	return out
}
