package slice

// C13: each function against its F#-List-style specification, for all
// element values / indices / counts, lengths 0..L (VERIF_L).

import "github.com/karino2/folang/pkg/frt"

func c13L() int { return envInt("VERIF_L", 3) }

func Harness_C13_LengthEmpty() {
	s := symSlice("s", c13L())
	verifAssert(Length(s) == len(s), "Length")
	verifAssert(Len(s) == len(s), "Len")
	verifAssert(IsEmpty(s) == (len(s) == 0), "IsEmpty")
	verifAssert(IsNotEmpty(s) == (len(s) != 0), "IsNotEmpty")
	n := New[int]()
	verifAssert(len(n) == 0, "New is empty")
	verifCover("end")
}

func Harness_C13_Item() {
	s := symSlice("s", c13L())
	i := verifInt("i")
	verifAssume(0 <= i && i < len(s))
	r := Item(i, s)
	for k := range s {
		if k == i {
			verifAssert(r == s[k], "Item i s = s[i]")
		}
	}
	verifCover("end")
}

func Harness_C13_Ends() {
	s := symSlice("s", c13L())
	verifAssume(len(s) > 0)
	verifAssert(Head(s) == s[0], "Head")
	verifAssert(Last(s) == s[len(s)-1], "Last")
	t := Tail(s)
	verifAssert(len(t) == len(s)-1, "Tail length")
	for i := range t {
		verifAssert(t[i] == s[i+1], "Tail elements")
	}
	p := PopLast(s)
	verifAssert(len(p) == len(s)-1, "PopLast length")
	for i := range p {
		verifAssert(p[i] == s[i], "PopLast elements")
	}
	verifCover("end")
}

func Harness_C13_EndsEmpty() {
	var s []int
	verifAssert(expectPanic(func() { Head(s) }), "Head of empty fails")
	verifAssert(expectPanic(func() { Tail(s) }), "Tail of empty fails")
	verifCover("end")
}

func Harness_C13_Push() {
	s := symSlice("s", c13L())
	e := verifInt("e")
	r := PushLast(e, s)
	verifAssert(len(r) == len(s)+1, "PushLast length")
	for i := range s {
		verifAssert(r[i] == s[i], "PushLast prefix")
	}
	verifAssert(r[len(s)] == e, "PushLast last")
	h := PushHead(e, s)
	verifAssert(len(h) == len(s)+1, "PushHead length")
	verifAssert(h[0] == e, "PushHead first")
	for i := range s {
		verifAssert(h[i+1] == s[i], "PushHead rest")
	}
	verifCover("end")
}

func Harness_C13_TakeSkip() {
	s := symSlice("s", c13L())
	n := verifInt("n")
	verifAssume(0 <= n && n <= len(s))
	t := Take(n, s)
	k := Skip(n, s)
	verifAssert(len(t) == n, "Take length")
	verifAssert(len(k) == len(s)-n, "Skip length")
	for i := range t {
		verifAssert(t[i] == s[i], "Take elements")
	}
	for i := range k {
		verifAssert(k[i] == s[len(t)+i], "Skip elements")
	}
	verifAssert(sameInts(Append(t, k), s), "Take n ++ Skip n = s")
	verifCover("end")
}

func Harness_C13_Map() {
	s := symSlice("s", c13L())
	c := verifInt("c")
	r := Map(func(x int) int { return x*3 + c }, s)
	verifAssert(len(r) == len(s), "Map length")
	for i := range s {
		verifAssert(r[i] == s[i]*3+c, "Map elements in order")
	}
	m := Mapi(func(i int, x int) int { return x - 2*i + c }, s)
	verifAssert(len(m) == len(s), "Mapi length")
	for i := range s {
		verifAssert(m[i] == s[i]-2*i+c, "Mapi passes index and element")
	}
	var seen []int
	Iter(func(x int) { seen = append(seen, x) }, s)
	verifAssert(sameInts(seen, s), "Iter visits each element once in order")
	verifCover("end")
}

func Harness_C13_Filter() {
	s := symSlice("s", c13L())
	c := verifInt("c")
	pred := func(x int) bool { return x < c }
	r := Filter(pred, s)
	var want []int
	for _, x := range s {
		if x < c {
			want = append(want, x)
		}
	}
	verifAssert(sameInts(r, want), "Filter keeps exactly the matching elements in order")
	verifCover("end")
}

func count(s []int, v int) int {
	n := 0
	for _, x := range s {
		if x == v {
			n++
		}
	}
	return n
}

func Harness_C13_Sort() {
	s := symSlice("s", c13L())
	r := Sort(s)
	verifAssert(len(r) == len(s), "Sort length")
	for i := 0; i+1 < len(r); i++ {
		verifAssert(r[i] <= r[i+1], "Sort ascending")
	}
	for _, v := range s {
		verifAssert(count(r, v) == count(s, v), "Sort is a permutation")
	}
	verifCover("end")
}

func Harness_C13_SortBy() {
	s := symSlice("s", c13L())
	proj := func(x int) int { return x & 7 }
	r := SortBy(proj, s)
	verifAssert(len(r) == len(s), "SortBy length")
	for i := 0; i+1 < len(r); i++ {
		verifAssert(proj(r[i]) <= proj(r[i+1]), "SortBy ascending by key")
	}
	for _, v := range s {
		verifAssert(count(r, v) == count(s, v), "SortBy is a permutation")
	}
	verifCover("end")
}

func Harness_C13_SortStrings() {
	l := verifChoice("len", c13L()+1)
	s := verifStrSlice("s", l)
	r := Sort(s)
	verifAssert(len(r) == len(s), "Sort(strings) length")
	for i := 0; i+1 < len(r); i++ {
		verifAssert(r[i] <= r[i+1], "Sort(strings) ascending")
	}
	for _, v := range s {
		a, b := 0, 0
		for _, x := range s {
			if x == v {
				a++
			}
		}
		for _, x := range r {
			if x == v {
				b++
			}
		}
		verifAssert(a == b, "Sort(strings) is a permutation")
	}
	verifCover("end")
}

func Harness_C13_Zip() {
	l := verifChoice("len", c13L()+1)
	a := verifIntSlice("a", l)
	b := verifStrSlice("b", l)
	r := Zip(a, b)
	verifAssert(len(r) == l, "Zip length")
	for i := range r {
		verifAssert(r[i].E0 == a[i] && r[i].E1 == b[i], "Zip pairs positionally")
	}
	verifCover("end")
}

func Harness_C13_ZipMismatch() {
	a := symSlice("a", 2)
	b := symSlice("b", 2)
	verifAssume(len(a) != len(b))
	verifAssert(expectPanic(func() { Zip(a, b) }), "Zip of different lengths fails")
	verifCover("end")
}

func Harness_C13_Scans() {
	s := symSlice("s", c13L())
	c := verifInt("c")
	var calls []int
	pred := func(x int) bool { calls = append(calls, x); return x < c }
	// Forall
	all := true
	firstBad := len(s)
	for i, x := range s {
		if !(x < c) {
			all = false
			firstBad = i
			break
		}
	}
	calls = nil
	verifAssert(Forall(pred, s) == all, "Forall value")
	if all {
		verifAssert(sameInts(calls, s), "Forall scans left to right")
	} else {
		verifAssert(sameInts(calls, s[:firstBad+1]), "Forall stops at the first failing element")
	}
	// Forany / TryFind
	any := false
	firstHit := len(s)
	for i, x := range s {
		if x < c {
			any = true
			firstHit = i
			break
		}
	}
	calls = nil
	verifAssert(Forany(pred, s) == any, "Forany value")
	if any {
		verifAssert(sameInts(calls, s[:firstHit+1]), "Forany stops at the first hit")
	} else {
		verifAssert(sameInts(calls, s), "Forany scans left to right")
	}
	calls = nil
	r := TryFind(pred, s)
	verifAssert(r.E1 == any, "TryFind found flag")
	if any {
		verifAssert(r.E0 == s[firstHit], "TryFind returns the first hit")
		verifAssert(sameInts(calls, s[:firstHit+1]), "TryFind stops at the first hit")
	} else {
		verifAssert(r.E0 == 0, "TryFind returns the zero value when nothing matches")
	}
	verifCover("end")
}

func Harness_C13_Fold() {
	s := symSlice("s", c13L())
	z := verifInt("z")
	r := Fold(func(acc int, x int) int { return acc*3 - x }, z, s)
	want := z
	for _, x := range s {
		want = want*3 - x
	}
	verifAssert(r == want, "Fold is a left fold")
	verifCover("end")
}

func Harness_C13_AppendConcatCollect() {
	a := symSlice("a", 2)
	b := symSlice("b", 2)
	c := symSlice("c", 1)
	var ab []int
	ab = append(ab, a...)
	ab = append(ab, b...)
	verifAssert(sameInts(Append(a, b), ab), "Append a b = a ++ b")
	var abc []int
	abc = append(abc, ab...)
	abc = append(abc, c...)
	verifAssert(sameInts(Concat([][]int{a, b, c}), abc), "Concat preserves order")
	verifAssert(len(Concat([][]int{})) == 0, "Concat of nothing is empty")
	k := verifInt("k")
	r := Collect(func(x int) []int { return []int{x, x + k} }, a)
	verifAssert(len(r) == 2*len(a), "Collect length")
	for i := range a {
		verifAssert(r[2*i] == a[i] && r[2*i+1] == a[i]+k, "Collect concatenates results in order")
	}
	verifCover("end")
}

// Collect over chunks that are windows of ONE backing array (symbolic start,
// length and spare capacity per chunk): the result is the concatenation of
// the chunks as they were when f returned them, and the pool is untouched.
// An implementation that adopts a chunk and appends into its spare capacity
// overwrites the following windows before they are read.
func Harness_C13_CollectSharedChunks() {
	pool := verifIntSlice("pool", 5)
	n := verifChoice("n", 3) + 1
	los := make([]int, n)
	his := make([]int, n)
	for i := 0; i < n; i++ {
		los[i] = verifChoice("lo", 4)
		his[i] = los[i] + verifChoice("w", 3)
		verifAssume(his[i] <= len(pool))
	}
	var want []int
	for i := 0; i < n; i++ {
		want = append(want, pool[los[i]:his[i]]...)
	}
	before := append([]int(nil), pool...)
	idx := make([]int, n)
	for i := range idx {
		idx[i] = i
	}
	r := Collect(func(i int) []int { return pool[los[i]:his[i]] }, idx)
	verifAssert(sameInts(r, want), "Collect concatenates chunks that share a backing array")
	verifAssert(sameInts(pool, before), "Collect leaves the chunks' backing array as it was")
	verifCover("end")
}

func Harness_C13_Distinct() {
	s := symSlice("s", c13L())
	r := Distinct(s)
	var want []int
	for i, x := range s {
		dup := false
		for j := 0; j < i; j++ {
			if s[j] == x {
				dup = true
			}
		}
		if !dup {
			want = append(want, x)
		}
	}
	verifAssert(sameInts(r, want), "Distinct keeps first occurrences in order")
	verifCover("end")
}

func Harness_C13_DistinctStrings() {
	l := verifChoice("len", c13L()+1)
	s := verifStrSlice("s", l)
	r := Distinct(s)
	var want []string
	for i, x := range s {
		dup := false
		for j := 0; j < i; j++ {
			if s[j] == x {
				dup = true
			}
		}
		if !dup {
			want = append(want, x)
		}
	}
	verifAssert(len(r) == len(want), "Distinct(strings) length")
	for i := range want {
		if i < len(r) {
			verifAssert(r[i] == want[i], "Distinct(strings) keeps first occurrences in order")
		}
	}
	verifCover("end")
}

var _ = frt.Fst[int, int]
