package slice

// verifStrSlice: n symbolic strings of exactly one byte each.
func verifStrSlice(name string, n int) []string {
	s := make([]string, n)
	for i := range s {
		s[i] = verifString(name+"["+itoaV(i)+"]", 1)
	}
	return s
}

// symSlice: a slice of symbolic ints whose length is a choice 0..maxLen.
func symSlice(name string, maxLen int) []int {
	l := verifChoice(name+".len", maxLen+1)
	return verifIntSlice(name, l)
}

func sameInts(a, b []int) bool {
	if len(a) != len(b) {
		return false
	}
	for i := range a {
		if a[i] != b[i] {
			return false
		}
	}
	return true
}

// expectPanic runs f and reports whether it panicked.
func expectPanic(f func()) bool {
	p, _ := tryRun(f)
	return p
}
