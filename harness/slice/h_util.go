package slice

func itoaV(i int) string {
	if i == 0 {
		return "0"
	}
	neg := i < 0
	if neg {
		i = -i
	}
	var b []byte
	for i > 0 {
		b = append([]byte{byte('0' + i%10)}, b...)
		i /= 10
	}
	if neg {
		return "-" + string(b)
	}
	return string(b)
}

func envInt(name string, def int) int {
	s := verifEnv(name)
	if s == "" {
		return def
	}
	n := 0
	for i := 0; i < len(s); i++ {
		n = n*10 + int(s[i]-'0')
	}
	return n
}

// verifIntSlice: n symbolic ints name[0..n-1].
func verifIntSlice(name string, n int) []int {
	s := make([]int, n)
	for i := range s {
		s[i] = verifInt(name + "[" + itoaV(i) + "]")
	}
	return s
}

// verifStrSlice: n symbolic strings of exactly one byte each.
func verifStrSlice(name string, n int) []string {
	s := make([]string, n)
	for i := range s {
		s[i] = verifString(name+"["+itoaV(i)+"]", 1)
	}
	return s
}

// symSlice: a slice of symbolic ints whose length is a choice 0..maxLen.
func symSlice(name string, maxLen int) []int {
	l := verifChoice(name+".len", maxLen+1)
	return verifIntSlice(name, l)
}

func sameInts(a, b []int) bool {
	if len(a) != len(b) {
		return false
	}
	for i := range a {
		if a[i] != b[i] {
			return false
		}
	}
	return true
}

// expectPanic runs f and reports whether it panicked.
func expectPanic(f func()) (panicked bool) {
	defer func() {
		if r := recover(); r != nil {
			if _, ok := r.(verifAssumeFailed); ok {
				panic(r)
			}
			panicked = true
		}
	}()
	f()
	return false
}
