package slice

// C12: one inductive step from an arbitrary aliased pre-state.  A backing
// array of M symbolic elements exists before the call; the argument is an
// arbitrary window s = arr[off : off+len : off+cap] of it (every value a
// Folang program can hold after any history of Tail/PopLast/PushLast/Take…
// is such a window of some array).  After one library call no element of the
// pre-existing array may have changed: then no held slice value ever changes,
// whatever the history.

import "github.com/karino2/folang/pkg/frt"

type c12pre struct {
	arr  []int
	snap []int
	s    []int
}

func c12Window(tag string) c12pre {
	m := envInt("VERIF_M", 4)
	arr := verifIntSlice(tag+"arr", m)
	snap := append([]int(nil), arr...)
	off := verifChoice(tag+"off", m+1)
	ln := verifChoice(tag+"len", m-off+1)
	cp := ln + verifChoice(tag+"cap", m-off-ln+1)
	return c12pre{arr, snap, arr[off : off+ln : off+cp]}
}

// a second window over the same array (for two-argument functions)
func c12Window2(p c12pre, tag string) []int {
	m := len(p.arr)
	off := verifChoice(tag+"off", m+1)
	ln := verifChoice(tag+"len", m-off+1)
	cp := ln + verifChoice(tag+"cap", m-off-ln+1)
	return p.arr[off : off+ln : off+cp]
}

func (p c12pre) check() {
	for i := range p.arr {
		verifAssert(p.arr[i] == p.snap[i], "pre-existing array element changed")
	}
	verifCover("end")
}

func Harness_C12_PushLast() {
	p := c12Window("")
	PushLast(verifInt("e"), p.s)
	p.check()
}

func Harness_C12_PushHead() {
	p := c12Window("")
	PushHead(verifInt("e"), p.s)
	p.check()
}

func Harness_C12_PopLast() {
	p := c12Window("")
	verifAssume(len(p.s) > 0)
	PopLast(p.s)
	p.check()
}

func Harness_C12_Tail() {
	p := c12Window("")
	verifAssume(len(p.s) > 0)
	Tail(p.s)
	p.check()
}

func Harness_C12_Take() {
	p := c12Window("")
	n := verifInt("n")
	verifAssume(0 <= n && n <= len(p.s))
	Take(n, p.s)
	p.check()
}

func Harness_C12_Skip() {
	p := c12Window("")
	n := verifInt("n")
	verifAssume(0 <= n && n <= len(p.s))
	Skip(n, p.s)
	p.check()
}

func Harness_C12_Append() {
	p := c12Window("")
	s2 := c12Window2(p, "b.")
	Append(p.s, s2)
	p.check()
}

func Harness_C12_Concat() {
	p := c12Window("")
	s2 := c12Window2(p, "b.")
	outer := make([][]int, 3, 4)
	outer[0], outer[1], outer[2] = p.s, s2, p.s
	k := verifChoice("outer.len", 4)
	ss := outer[:k]
	Concat(ss)
	verifAssert(len(outer[0]) == len(p.s) && len(outer[1]) == len(s2), "outer slice changed")
	p.check()
}

func Harness_C12_Map() {
	p := c12Window("")
	c := verifInt("c")
	Map(func(x int) int { return x + c }, p.s)
	p.check()
}

func Harness_C12_Mapi() {
	p := c12Window("")
	c := verifInt("c")
	Mapi(func(i int, x int) int { return x + i + c }, p.s)
	p.check()
}

func Harness_C12_Iter() {
	p := c12Window("")
	sum := 0
	Iter(func(x int) { sum += x }, p.s)
	p.check()
}

func Harness_C12_Filter() {
	p := c12Window("")
	c := verifInt("c")
	Filter(func(x int) bool { return x < c }, p.s)
	p.check()
}

func Harness_C12_Sort() {
	p := c12Window("")
	Sort(p.s)
	p.check()
}

func Harness_C12_SortBy() {
	p := c12Window("")
	SortBy(func(x int) int { return -x }, p.s)
	p.check()
}

func Harness_C12_Zip() {
	p := c12Window("")
	s2 := c12Window2(p, "b.")
	verifAssume(len(s2) == len(p.s))
	Zip(p.s, s2)
	p.check()
}

func Harness_C12_Collect() {
	p := c12Window("")
	// the callback returns a window of the same pre-existing array
	Collect(func(x int) []int { return p.s }, p.s)
	p.check()
}

func Harness_C12_Distinct() {
	p := c12Window("")
	Distinct(p.s)
	p.check()
}

func Harness_C12_Scalars() {
	// functions that return no slice: they must not write either
	p := c12Window("")
	c := verifInt("c")
	Length(p.s)
	Len(p.s)
	IsEmpty(p.s)
	IsNotEmpty(p.s)
	Forall(func(x int) bool { return x < c }, p.s)
	Forany(func(x int) bool { return x < c }, p.s)
	TryFind(func(x int) bool { return x == c }, p.s)
	Fold(func(a int, x int) int { return a + x }, 0, p.s)
	if len(p.s) > 0 {
		Head(p.s)
		Last(p.s)
		Item(len(p.s)-1, p.s)
	}
	p.check()
}

// Two-step histories (cross-check of the inductive argument, and the
// "result is never altered later" clause in its literal form): r1 = F(s) is
// snapshotted, then G is applied to r1, to s, or to a sibling; r1 must keep
// its contents.
func c12Op(k int, s []int, e int) []int {
	switch k {
	case 0:
		return PushLast(e, s)
	case 1:
		return PushHead(e, s)
	case 2:
		if len(s) == 0 {
			return s
		}
		return PopLast(s)
	case 3:
		if len(s) == 0 {
			return s
		}
		return Tail(s)
	case 4:
		return Take(len(s)/2, s)
	case 5:
		return Skip(len(s)/2, s)
	case 6:
		return Append(s, s)
	case 7:
		return Map(func(x int) int { return x + e }, s)
	case 8:
		return Filter(func(x int) bool { return x < e }, s)
	case 9:
		return Sort(s)
	case 10:
		return Distinct(s)
	case 11:
		return Concat([][]int{s, s})
	case 12:
		return SortBy(func(x int) int { return -x }, s)
	case 13:
		return Collect(func(x int) []int { return []int{x, e} }, s)
	}
	return Mapi(func(i int, x int) int { return x + i }, s)
}

const c12NumOps = 15

func Harness_C12x_TwoStep() {
	p := c12Window("")
	f := verifChoice("F", c12NumOps)
	g := verifChoice("G", c12NumOps)
	r1 := c12Op(f, p.s, verifInt("e1"))
	keep := append([]int(nil), r1...)
	var target []int
	if verifChoice("target", 2) == 0 {
		target = r1
	} else {
		target = p.s
	}
	r2 := c12Op(g, target, verifInt("e2"))
	keep2 := append([]int(nil), r2...)
	// a third call on the first result must not disturb the second either
	c12Op(0, r1, verifInt("e3"))
	verifAssert(sameInts(r1, keep), "first result altered by a later call")
	verifAssert(sameInts(r2, keep2), "second result altered by a later call")
	p.check()
}

var _ = frt.Fst[int, int]
