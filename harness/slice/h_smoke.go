package slice

func verifIntSlice(name string, n int) []int {
	s := make([]int, n)
	for i := range s {
		s[i] = verifInt(name + "[" + string(rune('0'+i)) + "]")
	}
	return s
}

func Harness_Smoke_Take() {
	l := verifChoice("len", 4)
	s := verifIntSlice("s", l)
	n := verifInt("n")
	verifAssume(0 <= n && n <= len(s))
	r := Take(n, s)
	verifAssert(len(r) == n, "len")
	for i := 0; i < len(r); i++ {
		verifAssert(r[i] == s[i], "elem")
	}
	verifCover("end")
}

func Harness_Smoke_Sort() {
	l := verifChoice("len", 4)
	s := verifIntSlice("s", l)
	r := Sort(s)
	verifAssert(len(r) == len(s), "len")
	for i := 0; i+1 < len(r); i++ {
		verifAssert(r[i] <= r[i+1], "ascending")
	}
	verifCover("end")
}

func Harness_Smoke_Buggy() {
	x := verifInt("x")
	y := verifInt("y")
	verifAssume(x > 0 && y > 0)
	verifAssert(x+y > 0, "no overflow (must fail)")
}
