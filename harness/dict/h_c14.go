package dict

// C14 (dict): a Dict behaves as a finite map.  An operation sequence of
// length <= K (choices) with symbolic int keys/values runs against the real
// wrappers and against a parallel-slices model.

import "github.com/karino2/folang/pkg/frt"

type mdl struct {
	ks []int
	vs []int
}

func (m *mdl) find(k int) int {
	for i := range m.ks {
		if m.ks[i] == k {
			return i
		}
	}
	return -1
}

func (m *mdl) add(k, v int) {
	if i := m.find(k); i >= 0 {
		m.vs[i] = v
		return
	}
	m.ks = append(m.ks, k)
	m.vs = append(m.vs, v)
}

func Harness_C14_DictOps() {
	kmax := envInt("VERIF_K", 3)
	d := New[int, int]()
	m := &mdl{}
	n := verifChoice("ops", kmax+1)
	for step := 0; step < n; step++ {
		k := verifInt("k" + itoaV(step))
		switch verifChoice("op"+itoaV(step), 4) {
		case 0:
			v := verifInt("v" + itoaV(step))
			Add(d, k, v)
			m.add(k, v)
		case 1:
			r := TryFind(d, k)
			i := m.find(k)
			verifAssert(r.E1 == (i >= 0), "TryFind reports presence")
			if i >= 0 {
				verifAssert(r.E0 == m.vs[i], "TryFind returns the last added value")
			} else {
				verifAssert(r.E0 == 0, "TryFind returns the zero value for a missing key")
			}
		case 2:
			verifAssert(ContainsKey(d, k) == (m.find(k) >= 0), "ContainsKey reflects exactly the added keys")
		case 3:
			i := m.find(k)
			if i >= 0 {
				verifAssert(Item(d, k) == m.vs[i], "Item returns the last added value")
			} else {
				verifAssert(Item(d, k) == 0, "Item of a missing key is the zero value")
			}
		}
	}
	// enumeration: each entry exactly once
	ks := Keys(d)
	vs := Values(d)
	kvs := KVs(d)
	verifAssert(len(ks) == len(m.ks) && len(vs) == len(m.ks) && len(kvs) == len(m.ks), "Keys/Values/KVs have one element per entry")
	for i := range m.ks {
		ck, cv, ckv := 0, 0, 0
		for _, k := range ks {
			if k == m.ks[i] {
				ck++
			}
		}
		for _, kv := range kvs {
			if kv.E0 == m.ks[i] && kv.E1 == m.vs[i] {
				ckv++
			}
		}
		verifAssert(ck == 1, "Keys enumerates each key once")
		verifAssert(ckv == 1, "KVs enumerates each entry once")
		// values may repeat: count occurrences in the model
		want := 0
		for j := range m.vs {
			if m.vs[j] == m.vs[i] {
				want++
			}
		}
		for _, v := range vs {
			if v == m.vs[i] {
				cv++
			}
		}
		verifAssert(cv == want, "Values enumerates each entry's value once")
	}
	verifCover("end")
}

func Harness_C14_ToDict() {
	n := verifChoice("len", envInt("VERIF_K", 3)+1)
	var ps []frt.Tuple2[int, int]
	m := &mdl{}
	for i := 0; i < n; i++ {
		k, v := verifInt("k"+itoaV(i)), verifInt("v"+itoaV(i))
		ps = append(ps, frt.NewTuple2(k, v))
		m.add(k, v)
	}
	d := ToDict(ps)
	verifAssert(len(Keys(d)) == len(m.ks), "ToDict has one entry per distinct key")
	for i := range m.ks {
		r := TryFind(d, m.ks[i])
		verifAssert(r.E1 && r.E0 == m.vs[i], "ToDict keeps the last value per key")
	}
	verifCover("end")
}

// string keys (the compiler's own use)
func Harness_C14_DictStringKeys() {
	d := New[string, int]()
	k1, k2 := verifString("k1", 2), verifString("k2", 2)
	Add(d, k1, 1)
	Add(d, k2, 2)
	if k1 == k2 {
		verifAssert(Item(d, k1) == 2 && len(Keys(d)) == 1, "Add overwrites an equal key")
	} else {
		verifAssert(Item(d, k1) == 1 && Item(d, k2) == 2 && len(Keys(d)) == 2, "distinct keys are kept apart")
	}
	verifAssert(!ContainsKey(d, k1+"x"), "a longer key is absent")
	verifCover("end")
}
