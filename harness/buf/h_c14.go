package buf

// C14 (buf): writes accumulate in order.
func Harness_C14_Buf() {
	b := New()
	want := ""
	n := verifChoice("writes", 4)
	for i := 0; i < n; i++ {
		s := symBuf("s"+itoaV(i), 2)
		Write(b, s)
		want += s
	}
	verifAssert(String(b) == want, "String is the concatenation of the writes in order")
	verifAssert(String(b) == want, "String is repeatable")
	verifCover("end")
}
