package main

// C15: type expressions map to Go types by the documented grammar.  A type
// expression tree is generated from choices (node budget, depth), printed as
// Folang (minimal parentheses + optional redundant ones) and as the reference
// Go type; one designated atom is an identifier of symbolic lower-case bytes,
// so the base-type mapping and the pass-through / rejection of every other
// name are decided for all identifiers.  The expression is placed in one of
// five syntactic positions and compiled by the real pipeline.

type c15T struct {
	kind  int // 0 atom, 1 slice, 2 tuple, 3 func, 4 generic, 5 unit
	fo    string
	gotxt string
	kids  []*c15T
	paren bool
	bad   bool // unknown type name: the program must be rejected
}

var c15Atoms = [][2]string{{"int", "int"}, {"string", "string"}, {"bool", "bool"}, {"float", "float64"}, {"any", "any"},
	{"rec", "rec"}, {"uni", "uni"}, {"ext.Plain", "ext.Plain"},
	// user types whose names are also short names inside package_info blocks (an external type, a type parameter)
	{"Plain", "Plain"}, {"T", "T"}}

type c15Gen struct {
	budget   int
	symLeft  bool // the next atom is the symbolic identifier
	bad      bool
	fewAtoms bool
	inPkg    bool // inside package_info: its own types are written unqualified
}

var c15Few = []int{0, 3, 5, 7, 8} // int, float, rec, ext.Plain, Plain (the user record)

func (g *c15Gen) atom(tag string) *c15T {
	if g.symLeft {
		g.symLeft = false
		l := 3 + verifChoice(tag+".symlen", 4)
		name := verifString("ident", l)
		for i := 0; i < l; i++ {
			verifAssume(name[i] >= 'a')
			verifAssume(name[i] <= 'z')
		}
		// reference classification on the same bytes
		gotxt := name
		known := false
		for _, a := range c15Atoms {
			if name == a[0] {
				known = true
				gotxt = a[1]
			}
		}
		// keywords are not identifiers
		_, kw := keywordMapCopy[name]
		verifAssume(!kw)
		t := &c15T{kind: 0, fo: name, gotxt: gotxt, bad: !known}
		if !known {
			g.bad = true
		}
		return t
	}
	n := len(c15Atoms)
	if g.fewAtoms {
		n = len(c15Few)
		a := c15Atoms[c15Few[verifChoice(tag+".atom", n)]]
		return &c15T{kind: 0, fo: a[0], gotxt: a[1]}
	}
	a := c15Atoms[verifChoice(tag+".atom", n)]
	return &c15T{kind: 0, fo: a[0], gotxt: a[1]}
}

var keywordMapCopy = map[string]bool{"let": true, "package": true, "import": true, "type": true, "of": true, "match": true, "with": true,
	"true": true, "false": true, "and": true, "if": true, "then": true, "else": true, "elif": true, "not": true, "fun": true}

func (g *c15Gen) gen(tag string, depth int) *c15T {
	g.budget--
	if depth == 0 || g.budget <= 0 {
		return g.atom(tag)
	}
	var t *c15T
	switch verifChoice(tag+".kind", 7) {
	case 0:
		t = g.atom(tag)
	case 1:
		t = &c15T{kind: 1, kids: []*c15T{g.gen(tag+"e", depth-1)}}
	case 2:
		n := 2 + verifChoice(tag+".arity", 2)
		t = &c15T{kind: 2}
		for i := 0; i < n; i++ {
			t.kids = append(t.kids, g.gen(tag+itoaV(i), depth-1))
		}
	case 3:
		// func: 1 or 2 arguments and a result; unit as sole argument or as result
		t = &c15T{kind: 3}
		switch verifChoice(tag+".fshape", 4) {
		case 0:
			t.kids = []*c15T{g.gen(tag+"a", depth-1), g.gen(tag+"r", depth-1)}
		case 1:
			t.kids = []*c15T{g.gen(tag+"a", depth-1), g.gen(tag+"b", depth-1), g.gen(tag+"r", depth-1)}
		case 2:
			t.kids = []*c15T{{kind: 5}, g.gen(tag+"r", depth-1)}
		case 3:
			t.kids = []*c15T{g.gen(tag+"a", depth-1), {kind: 5}}
		}
	case 4:
		t = &c15T{kind: 4, fo: "ext.Box", kids: []*c15T{g.gen(tag+"t", depth-1)}}
	case 5:
		t = &c15T{kind: 4, fo: "ext.Pair", kids: []*c15T{g.gen(tag+"t", depth-1), g.gen(tag+"u", depth-1)}}
	case 6:
		t = &c15T{kind: 4, fo: "grec", kids: []*c15T{g.gen(tag+"t", depth-1)}}
	}
	return t
}

// level: 0 top, 1 arrow operand, 2 tuple operand, 3 slice element
var c15InPkg = false

func c15Name(n string) string {
	if c15InPkg && len(n) > 4 && n[:4] == "ext." {
		return n[4:]
	}
	return n
}

func (t *c15T) show(level int) string {
	s := ""
	need := false
	switch t.kind {
	case 0:
		s = c15Name(t.fo)
	case 5:
		s = "()"
	case 1:
		s = "[]" + t.kids[0].show(3)
	case 2:
		for i, k := range t.kids {
			if i > 0 {
				s += "*"
			}
			s += k.show(2)
		}
		need = level >= 2
	case 3:
		for i, k := range t.kids {
			if i > 0 {
				s += "->"
			}
			s += k.show(1)
		}
		need = level >= 1
	case 4:
		s = c15Name(t.fo) + "<"
		for i, k := range t.kids {
			if i > 0 {
				s += ", "
			}
			s += k.show(0)
		}
		s += ">"
	}
	if need || t.paren {
		return "(" + s + ")"
	}
	return s
}

// inside a package_info block the block's own type names win: an unqualified
// Plain there is ext.Plain, not the user's record of the same name
var c15WantInPkg bool

func (t *c15T) goType() string {
	switch t.kind {
	case 0:
		if c15WantInPkg && t.fo == "Plain" {
			return "ext.Plain"
		}
		return t.gotxt
	case 5:
		return ""
	case 1:
		return "[]" + t.kids[0].goType()
	case 2:
		s := "frt.Tuple" + itoaV(len(t.kids)) + "["
		for i, k := range t.kids {
			if i > 0 {
				s += ","
			}
			s += k.goType()
		}
		return s + "]"
	case 3:
		s := "func("
		n := len(t.kids)
		for i := 0; i < n-1; i++ {
			if i > 0 {
				s += ","
			}
			s += t.kids[i].goType()
		}
		return s + ")" + t.kids[n-1].goType()
	}
	s := t.fo + "["
	for i, k := range t.kids {
		if i > 0 {
			s += ","
		}
		s += k.goType()
	}
	return s + "]"
}

func stripAll(s string) string {
	var b []byte
	for i := 0; i < len(s); i++ {
		if s[i] != ' ' && s[i] != '\t' && s[i] != '\n' {
			b = append(b, s[i])
		}
	}
	return string(b)
}

const c15PkgInfo = "package_info ext =\n  type Box<T>\n  type Pair<T, U>\n  type Plain\n\n"

// the order of the package_info block and the user types is a property of the run (see c15Order)
var c15TypesFirst bool

func c15PreludeNow() string {
	if c15TypesFirst {
		return "package main\n\n" + c15Types + c15PkgInfo
	}
	return "package main\n\n" + c15PkgInfo + c15Types
}

const c15Types = "type rec = {A: int}\ntype uni =\n  | UA of int\n  | UB\ntype grec<T> = {V: T}\ntype Plain = {P: int}\ntype T = {Tag: int}\n\n"

func c15Place(pos int, t *c15T) (src string, want string) {
	c15WantInPkg = pos == 3
	gt := t.goType()
	c15WantInPkg = false
	switch pos {
	case 0: // parameter annotation
		return c15PreludeNow() + "let f (x: " + t.show(0) + ") = x\n", "funcf(x" + gt + ")" + gt + "{"
	case 1: // record field
		return c15PreludeNow() + "type r2 = {F: " + t.show(0) + "; G: int}\n", "typer2struct{F" + gt + "Gint}"
	case 2: // union payload
		return c15PreludeNow() + "type u2 =\n  | A of " + t.show(1) + "\n  | B\n", "typeu2_Astruct{Value" + gt + "}"
	case 3: // package_info signature, seen through a partial application's closure parameter
		c15InPkg = true
		sig := t.show(1)
		c15InPkg = false
		return "package main\n\n" + c15Types + "package_info ext =\n  type Box<T>\n  type Pair<T, U>\n  type Plain\n  let Fn: int -> " + sig + " -> string\n\nlet h () = ext.Fn 1\n",
			"(func(_r0" + gt + ")string{returnext.Fn(1,_r0)})"
	}
	if pos == 5 { // explicit type argument on a partial application (stored, and as a pipe stage)
		return c15PreludeNow() + "package_info ext2 =\n  let Conv<T>: string->int->T\n\nlet m () = ext2.Conv<" + t.show(0) + "> \"x\"\n\nlet m2 () = 3 |> ext2.Conv<" + t.show(0) + "> \"y\"\n",
			"returnext2.Conv[" + gt + "](\"x\",_r0)"
	}
	// explicit type argument
	return c15PreludeNow() + "package_info ext2 =\n  let Mk<T>: ()->[]T\n\nlet m () = ext2.Mk<" + t.show(0) + "> ()\n", "ext2.Mk[" + gt + "]()"
}

func c15Check(pos int, g *c15Gen, t *c15T) {
	src, want := c15Place(pos, t)
	out, p, msg := compileSrc(src)
	if g.bad {
		verifAssert(p, "a type expression naming an unknown type is rejected")
		verifCover("rejected-unknown-name")
		return
	}
	verifAssert(!p, "type expression is accepted: "+msg)
	verifNote(t.show(0) + "  =>  " + t.goType())
	verifAssert(indexOf(stripAll(out), want, 0) >= 0, "Go type follows the documented grammar")
	if pos == 5 {
		verifAssert(indexOf(stripAll(out), "returnext2.Conv["+t.goType()+"](\"y\",_r0)", 0) >= 0, "Go type follows the documented grammar (type argument of a pipe stage)")
	}
	verifCover("end")
}

// spine family: nesting to depth d along one path; siblings are int atoms
func (g *c15Gen) spine(tag string, depth int) *c15T {
	if depth == 0 {
		return g.atom(tag)
	}
	intT := func() *c15T { return &c15T{kind: 0, fo: "int", gotxt: "int"} }
	fill := func(n int, kind int, fo string) *c15T {
		t := &c15T{kind: kind, fo: fo}
		at := verifChoice(tag+".at", n)
		for i := 0; i < n; i++ {
			if i == at {
				t.kids = append(t.kids, g.spine(tag+itoaV(i), depth-1))
			} else {
				t.kids = append(t.kids, intT())
			}
		}
		return t
	}
	var t *c15T
	switch verifChoice(tag+".kind", 9) {
	case 0:
		t = g.atom(tag)
	case 1:
		t = fill(1, 1, "")
	case 2:
		t = fill(2, 2, "")
	case 3:
		t = fill(3, 2, "")
	case 4:
		t = fill(2, 3, "")
	case 5:
		t = fill(3, 3, "")
	case 6: // ()->T  /  T->()
		k := g.spine(tag+"u", depth-1)
		if verifChoice(tag+".unitside", 2) == 0 {
			t = &c15T{kind: 3, kids: []*c15T{{kind: 5}, k}}
		} else {
			t = &c15T{kind: 3, kids: []*c15T{k, {kind: 5}}}
		}
	case 7:
		t = fill(2, 4, "ext.Pair")
	case 8:
		t = fill(1, 4, "grec")
	}
	if depth == 1 && verifChoice(tag+".paren", 2) == 1 {
		t.paren = true
	}
	return t
}

func c15Spine(pos int) {
	c15TypesFirst = true // the user types come before the package_info block that reuses two of their names
	g := &c15Gen{fewAtoms: true}
	t := g.spine("t", envInt("VERIF_SPINE", 3))
	c15Check(pos, g, t)
}

func Harness_C15_SpineParam()          { c15Spine(0) }
func Harness_C15_SpineField()          { c15Spine(1) }
func Harness_C15_SpinePayload()        { c15Spine(2) }
func Harness_C15_SpinePkgInfoSig()     { c15Spine(3) }
func Harness_C15_SpineTypeArg()        { c15Spine(4) }
func Harness_C15_SpineTypeArgPartial() { c15Spine(5) }

// structural family: trees from choices over four atoms
func c15Run(pos int) {
	c15TypesFirst = false
	g := &c15Gen{budget: envInt("VERIF_NODES", 4), fewAtoms: true}
	t := g.gen("t", envInt("VERIF_DEPTH", 2))
	if verifChoice("rootparen", 2) == 1 {
		t.paren = true
	}
	c15Check(pos, g, t)
}

func Harness_C15_Param()          { c15Run(0) }
func Harness_C15_Field()          { c15Run(1) }
func Harness_C15_Payload()        { c15Run(2) }
func Harness_C15_PkgInfoSig()     { c15Run(3) }
func Harness_C15_TypeArg()        { c15Run(4) }
func Harness_C15_TypeArgPartial() { c15Run(5) }

// identifier family: one atom is an identifier of 3..6 symbolic lower-case
// bytes, alone or under one constructor, in every position.
func Harness_C15_Ident() {
	c15TypesFirst = verifChoice("order", 2) == 1
	pos := verifChoice("pos", 6)
	g := &c15Gen{budget: 3, symLeft: true}
	a := g.atom("t")
	var t *c15T
	switch verifChoice("shape", 4) {
	case 0:
		t = a
	case 1:
		t = &c15T{kind: 1, kids: []*c15T{a}}
	case 2:
		t = &c15T{kind: 2, kids: []*c15T{{kind: 0, fo: "int", gotxt: "int"}, a}}
	case 3:
		t = &c15T{kind: 3, kids: []*c15T{a, {kind: 0, fo: "bool", gotxt: "bool"}}}
	}
	c15Check(pos, g, t)
}

// every concrete atom in every position
func Harness_C15_Atoms() {
	c15TypesFirst = verifChoice("order", 2) == 1
	pos := verifChoice("pos", 6)
	g := &c15Gen{budget: 1}
	c15Check(pos, g, g.atom("t"))
}
