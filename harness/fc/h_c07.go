package main

// C07: the Go emitted for a top-level definition depends only on itself and
// what it references.  In one path the real main() runs twice over the
// virtual file system: on the minimal package (dependencies + target) and on
// a variant with unrelated definitions (whose identifiers are symbolic bytes)
// inserted at chosen places, the independent dependencies reordered, and the
// sequence cut into up to three files (a .foi file for the unrelated
// package_info).  The target's text, temporaries renumbered, must be equal;
// every X.fo yields gen_X.go, a .foi yields nothing.

type c07Tpl struct {
	deps   []string
	target string
	marks  []string // start markers of the target's Go text
	extra  string   // an unrelated definition that names the template's own types (the target does not use it)
}

var c07Templates = []c07Tpl{
	{
		deps: []string{
			"type Rec = {X: int; Y: string}\n\nlet width = 80\n",
			"type Uni =\n  | A of int\n  | B\n",
			"let helper (a:int) =\n  a + 1\n",
		},
		target: "let half () =\n  width\n\nlet tgt (r:Rec) (u:Uni) =\n  let n = match u with\n          | A i -> i\n          | B -> 0\n  helper n + r.X + width\n",
		marks:  []string{"func half(", "func tgt("},
		extra:  "let recx (r:Rec) (u:Uni) =\n  r.X\n",
	},
	{
		deps: []string{
			"type Pt = {X: int; Y: int}\n",
			"let idf x =\n  x\n",
			"let cst () =\n  3\n",
		},
		target: "let tgt (a:int) =\n  let p = {X=idf a; Y=cst ()}\n  let q = {X=p.Y; Y=idf 2}\n  (p, q)\n",
		marks:  []string{"func tgt("},
		// also an unrelated record whose fields strictly contain those of the target's literals and whose name sorts first
		extra:  "type Apt3 = {X: int; Y: int; Z: int}\n\nlet ptx (p:Pt) =\n  p.X\n",
	},
	{
		deps: []string{
			"type Leaf = {V: int}\n",
			"let one () =\n  1\n",
			"let two () =\n  2\n",
		},
		target: "type Tree =\n  | Lf of Leaf\n  | Nd of Pair\nand Pair = {L: Tree; R: Tree}\n",
		marks:  []string{"type Tree interface", "type Tree_Nd struct", "type Pair struct", "func New_Tree_Lf("},
		extra:  "let leafV (l:Leaf) =\n  l.V\n",
	},
	{
		// a record with a forward field reference inside an 'and' group, used through a literal
		deps: []string{
			"type Order = {Id: int; Ship: Addr}\nand Addr = {City: string; Zip: int}\n",
			"let one () =\n  1\n",
			"let two () =\n  2\n",
		},
		target: "let mkOrder a =\n  {Id=one (); Ship=a}\n\nlet cityOf (o:Order) =\n  o.Ship.City\n",
		marks:  []string{"func mkOrder", "func cityOf("},
		extra:  "let zipOf (o:Order) =\n  o.Ship.Zip + two ()\n",
	},
	{
		// an instance of a generic record; the unrelated neighbour is a non-generic record whose
		// name spells that instance the way internal table keys do (GBox_int)
		deps: []string{
			"type GBox<T> = {Value: T}\n",
			"let one () =\n  1\n",
			"let two () =\n  2\n",
		},
		target: "let getv (b: GBox<int>) =\n  b.Value\n\nlet getw (b: GBox<int>) =\n  b.Value + one ()\n\nlet mkvalue (a:int) =\n  {Value=a}\n",
		marks:  []string{"func getv(", "func getw(", "func mkvalue("},
		extra:  "type GBox_int = {Value: string}\n\nlet label (x: GBox_int) =\n  x.Value\n",
	},
}

// renumber compiler temporaries _vN by first occurrence
func c07Renumber(s string) string {
	var seen []string
	var out []byte
	for i := 0; i < len(s); {
		if s[i] == '_' && i+2 < len(s) && s[i+1] == 'v' && s[i+2] >= '0' && s[i+2] <= '9' {
			j := i + 2
			for j < len(s) && s[j] >= '0' && s[j] <= '9' {
				j++
			}
			name := s[i:j]
			k := -1
			for n, x := range seen {
				if x == name {
					k = n
				}
			}
			if k < 0 {
				seen = append(seen, name)
				k = len(seen) - 1
			}
			out = append(out, ("_v#" + itoaV(k))...)
			i = j
			continue
		}
		out = append(out, s[i])
		i++
	}
	return string(out)
}

// c07Extract: the declaration starting at mark up to the closing brace line.
func c07Extract(gen string, mark string) (string, bool) {
	at := indexOf(gen, mark, 0)
	if at < 0 {
		return "", false
	}
	end := indexOf(gen, "\n}\n", at)
	if end < 0 {
		return "", false
	}
	return c07Renumber(gen[at : end+3]), true
}

func c07Name(tag string, avoid []string) string {
	n := verifString(tag, 3)
	for i := 0; i < 3; i++ {
		verifAssume(n[i] >= 'a')
		verifAssume(n[i] <= 'z')
	}
	for _, a := range avoid {
		verifAssume(n != a)
	}
	return n
}

func c07Run(files []string, contents []string) (gens []string, code int) {
	args := []string{"fc"}
	for i, f := range files {
		verifSetFile(f, contents[i])
		args = append(args, f)
	}
	verifSetArgs(args)
	code = verifRunMain(main)
	for _, f := range files {
		dir, name := "", f
		if k := lastIndexByte(f, '/'); k >= 0 {
			dir, name = f[:k+1], f[k+1:]
		}
		if len(name) > 3 && name[len(name)-3:] == ".fo" {
			g, ok := verifFile(dir + "gen_" + name[:len(name)-3] + ".go")
			verifAssert(ok, "every X.fo argument yields gen_X.go next to it")
			gens = append(gens, g)
		} else {
			_, ok := verifFile(dir + "gen_" + name[:len(name)-4] + ".go")
			verifAssert(!ok, "a .foi argument yields no file")
		}
	}
	return
}

func lastIndexByte(s string, c byte) int {
	for i := len(s) - 1; i >= 0; i-- {
		if s[i] == c {
			return i
		}
	}
	return -1
}

func Harness_C07_Context() {
	tpl := c07Templates[verifChoice("template", len(c07Templates))]
	// baseline: dependencies in the given order + target, one file
	base := "package main\n\n"
	for _, d := range tpl.deps {
		base += d + "\n"
	}
	base += tpl.target
	bg, bcode := c07Run([]string{"b.fo"}, []string{base})
	verifAssert(bcode == 0, "the minimal package is accepted: "+verifStdout())
	var want []string
	for _, m := range tpl.marks {
		w, ok := c07Extract(bg[0], m)
		verifAssert(ok, "target found in the baseline output")
		want = append(want, w)
	}

	// unrelated definitions with symbolic identifiers
	avoid := []string{"tgt", "idf", "one", "two", "cst", "ptx", "let", "not", "and", "fun", "int", "any", "ext"}
	n1 := c07Name("n1", avoid)
	n2 := c07Name("n2", append(avoid, n1))
	n3, n4 := "zed", "qux"
	verifAssume(n1 != n3)
	verifAssume(n1 != n4)
	verifAssume(n2 != n3)
	verifAssume(n2 != n4)
	unrel := []string{
		"let " + n1 + " (q:int) =\n  let w = q * 2\n  w + 1\n",
		"type " + n2 + " = {P" + n2 + ": int; Q" + n2 + ": string}\n",
		"type " + n3 + " =\n  | K" + n3 + "a\n  | K" + n3 + "b of int\n\nlet use" + n3 + " (v:" + n3 + ") =\n  match v with\n  | K" + n3 + "a -> 0\n  | K" + n3 + "b i -> i\n",
	}
	// an unrelated root-level value whose initialiser binds local names that
	// coincide with top-level names the targets use (lexical scoping: no effect)
	unrel = append(unrel, "type Zlbl =\n  | Zlabel of string\n  | Znone of int\n\nlet zfirst = Zlabel \"x\"\n\nlet zshown = match zfirst with\n             | Zlabel width -> width\n             | Znone idf -> \"n\"\n")
	pkginfo := "package_info ext =\n  let " + n4 + ": int->int\n"

	// order of the independent dependencies
	deps := tpl.deps
	switch verifChoice("perm", envInt("VERIF_PERMS", 2)) {
	case 1:
		deps = []string{tpl.deps[2], tpl.deps[1], tpl.deps[0]}
	case 2:
		deps = []string{tpl.deps[1], tpl.deps[2], tpl.deps[0]}
	}
	// sequence of items; the target is last among the dependencies
	var seq []string
	slots := [][]string{nil, nil, nil} // before all / between deps and target / after target
	for k, u := range unrel {
		if verifChoice("use"+itoaV(k), 2) == 1 {
			s := 1 // between the dependencies and the target
			if k < 2 {
				s = verifChoice("slot"+itoaV(k), envInt("VERIF_SLOTS", 2))
				if s == 1 && envInt("VERIF_SLOTS", 2) == 2 {
					s = 2
				}
			}
			slots[s] = append(slots[s], u)
		}
	}
	seq = append(seq, slots[0]...)
	seq = append(seq, deps...)
	seq = append(seq, slots[1]...)
	tIdx := len(seq)
	seq = append(seq, tpl.target)
	seq = append(seq, slots[2]...)

	// cut into files
	var files, contents []string
	if verifChoice("foi", 2) == 1 {
		files = append(files, "p.foi")
		contents = append(contents, pkginfo)
	}
	ncut := verifChoice("cuts", envInt("VERIF_CUTS", 2)+1) // 0, 1 or 2 cuts
	cut1, cut2 := len(seq), len(seq)
	if ncut >= 1 {
		cut1 = 1 + verifChoice("cut1", len(seq)-1)
	}
	if ncut == 2 && cut1 < len(seq)-1 {
		cut2 = cut1 + 1 + verifChoice("cut2", len(seq)-cut1-1)
	}
	cur := "package main\n\n"
	fileOfTarget := 0
	nf := 0
	for i, it := range seq {
		if i == cut1 || i == cut2 {
			files = append(files, "v"+itoaV(nf)+".fo")
			contents = append(contents, cur)
			nf++
			cur = "package main\n\n"
		}
		if i == tIdx {
			fileOfTarget = nf
		}
		cur += it + "\n"
	}
	files = append(files, "v"+itoaV(nf)+".fo")
	contents = append(contents, cur)

	vg, vcode := c07Run(files, contents)
	verifAssert(vcode == 0, "the variant package is accepted: "+verifStdout())
	for k, m := range tpl.marks {
		got, ok := c07Extract(vg[fileOfTarget], m)
		verifAssert(ok, "target found in the variant output")
		verifAssert(got == want[k], "the target's Go text is the same in every context")
	}
	verifCover("end")
}

// long histories: many unrelated type groups with forward references and many
// unrelated functions with matches / inferred generics before (or after) the
// target; per-definition counters and allocators must not accumulate
func Harness_C07_LongHistory() {
	tpl := c07Templates[2]
	k := envInt("VERIF_HISTORY", 45)
	base := "package main\n\n"
	for _, d := range tpl.deps {
		base += d + "\n"
	}
	base += tpl.target
	bg, bcode := c07Run([]string{"b.fo"}, []string{base})
	verifAssert(bcode == 0, "the minimal package is accepted: "+verifStdout())
	hist := ""
	for i := 0; i < k; i++ {
		n := itoaV(i)
		hist += "type Ha" + n + " =\n  | Hx" + n + " of Hb" + n + "\n  | Hy" + n + " of Hc" + n + "\nand Hb" + n + " = {Hf" + n + ": Hc" + n + "}\nand Hc" + n + " = {Hg" + n + ": int}\n\n"
		hist += "let hfun" + n + " (v:Ha" + n + ") a b =\n  match v with\n  | Hx" + n + " p -> (a, b)\n  | Hy" + n + " q -> (a, b)\n\n"
	}
	where := verifChoice("where", 3) // history before the dependencies, between them and the target, or in an earlier file
	var files, contents []string
	deps := ""
	for _, d := range tpl.deps {
		deps += d + "\n"
	}
	tfile := 0
	switch where {
	case 0:
		files, contents = []string{"v0.fo"}, []string{"package main\n\n" + hist + deps + tpl.target}
	case 1:
		files, contents = []string{"v0.fo"}, []string{"package main\n\n" + deps + hist + tpl.target}
	case 2:
		files, contents = []string{"v0.fo", "v1.fo"}, []string{"package main\n\n" + hist, "package main\n\n" + deps + tpl.target}
		tfile = 1
	}
	vg, vcode := c07Run(files, contents)
	verifAssert(vcode == 0, "the package with a long unrelated history is accepted: "+verifStdout())
	for _, m := range tpl.marks {
		want, _ := c07Extract(bg[0], m)
		got, ok := c07Extract(vg[tfile], m)
		verifAssert(ok && got == want, "the target's Go text does not depend on how much was processed before it")
	}
	verifCover("end")
}

// an unrelated package_info block (in the file or as a .foi argument) whose
// declarations carry, inside ANOTHER package, the unqualified names of
// definitions the target uses: external type names, external function names
// and type variables are local to their block
func Harness_C07_PackageInfoNames() {
	t := verifChoice("template", len(c07Templates))
	tpl := c07Templates[t]
	base := "package main\n\n"
	for _, d := range tpl.deps {
		base += d + "\n"
	}
	bg, bcode := c07Run([]string{"b.fo"}, []string{base + tpl.target})
	verifAssert(bcode == 0, "the minimal package is accepted: "+verifStdout())
	var want []string
	for _, m := range tpl.marks {
		w, ok := c07Extract(bg[0], m)
		verifAssert(ok, "target found in the baseline output")
		want = append(want, w)
	}
	tys := [][]string{{"Rec", "Uni"}, {"Pt", "Pt"}, {"Leaf", "Leaf"}, {"Order", "Addr"}, {"GBox", "GBox"}}[t]
	fns := [][]string{{"helper", "width"}, {"idf", "cst"}, {"one", "two"}, {"one", "two"}, {"one", "two"}}[t]
	var pi string
	switch verifChoice("kind", 3) {
	case 0: // external types
		pi = "package_info ext =\n  type " + tys[0] + "\n  let mk" + tys[0] + ": string->" + tys[0] + "\n"
		if tys[1] != tys[0] {
			pi += "  type " + tys[1] + "\n"
		}
	case 1: // external functions
		pi = "package_info ext =\n  let " + fns[0] + ": string->string->string\n  let " + fns[1] + ": string->string\n"
	default: // type variables
		pi = "package_info ext =\n  let Conv<" + tys[0] + ">: any->" + tys[0] + "\n  let Conv2<" + tys[1] + ", " + fns[0] + ">: " + tys[1] + "->" + fns[0] + "\n"
	}
	var files, contents []string
	fileOfTarget := 0
	switch verifChoice("place", 4) {
	case 0: // in the file, between the dependencies and the target
		files, contents = []string{"v0.fo"}, []string{base + pi + "\n" + tpl.target}
	case 1: // in the file, after the target
		files, contents = []string{"v0.fo"}, []string{base + tpl.target + "\n" + pi}
	case 2: // a .foi argument between two .fo files
		files, contents = []string{"v0.fo", "p.foi", "v1.fo"}, []string{base, pi, "package main\n\n" + tpl.target}
		fileOfTarget = 1
	default: // an earlier .fo file ends with the block
		files, contents = []string{"v0.fo", "v1.fo"}, []string{base + pi, "package main\n\n" + tpl.target}
		fileOfTarget = 1
	}
	vg, vcode := c07Run(files, contents)
	verifAssert(vcode == 0, "the variant package is accepted: "+verifStdout())
	for k, m := range tpl.marks {
		got, ok := c07Extract(vg[fileOfTarget], m)
		verifAssert(ok, "target found in the variant output")
		verifAssert(got == want[k], "the target's Go text does not depend on names declared inside an unrelated package_info block")
	}
	verifCover("end")
}

// an unrelated definition that NAMES the types the target uses (an annotation
// mentioning a record of the dependencies) present or absent, before or after
// the target, in the same or an earlier file: global per-type tables must not
// carry anything from it into the target
func Harness_C07_TypeNamingNeighbour() {
	t := verifChoice("template", len(c07Templates))
	tpl := c07Templates[t]
	base := "package main\n\n"
	for _, d := range tpl.deps {
		base += d + "\n"
	}
	bg, bcode := c07Run([]string{"b.fo"}, []string{base + tpl.target})
	verifAssert(bcode == 0, "the minimal package is accepted: "+verifStdout())
	var want []string
	for _, m := range tpl.marks {
		w, ok := c07Extract(bg[0], m)
		verifAssert(ok, "target found in the baseline output")
		want = append(want, w)
	}
	var files, contents []string
	fileOfTarget := 0
	switch verifChoice("place", 5) {
	case 4: // files in a sub-directory: the output goes next to each
		files, contents = []string{"sub/lib.defs.fo", "sub/dir.v1/use.fo"}, []string{base + tpl.extra, "package main\n\n" + tpl.target}
		fileOfTarget = 1
	case 0: // before the target
		files, contents = []string{"v0.fo"}, []string{base + tpl.extra + "\n" + tpl.target}
	case 1: // after the target
		files, contents = []string{"v0.fo"}, []string{base + tpl.target + "\n" + tpl.extra}
	case 2: // at the end of an earlier file (file names with further dots: X.fo yields gen_X.go for the whole X)
		files, contents = []string{"pkg.types.fo", "pkg.app.fo"}, []string{base + tpl.extra, "package main\n\n" + tpl.target}
		fileOfTarget = 1
	default: // in a file of its own between the dependencies and the target
		files, contents = []string{"m.v0.fo", "m.v1.x.fo", "m.fo"}, []string{base, "package main\n\n" + tpl.extra, "package main\n\n" + tpl.target}
		fileOfTarget = 2
	}
	vg, vcode := c07Run(files, contents)
	verifAssert(vcode == 0, "the variant package is accepted: "+verifStdout())
	for k, m := range tpl.marks {
		got, ok := c07Extract(vg[fileOfTarget], m)
		verifAssert(ok, "target found in the variant output")
		verifAssert(got == want[k], "the target's Go text does not depend on an unrelated definition that names the same types")
	}
	verifCover("end")
}
