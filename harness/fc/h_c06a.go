package main

// C06 (A): scanner / column lemma at byte level.  For every buffer of <= N
// symbolic bytes: blanks, tabs and comments never produce a token of their
// own and are transparent between tokens; a token is a function of the bytes
// from its begin on; the tokenizer's col is the true column (distance to the
// previous newline), in particular it restarts after an EOL token.

func c06N() int { return envInt("VERIF_N", 5) }

// refSkip: first position at or after p that is not inside blanks, tabs,
// /*…*/ or //… ; ok=false for an unterminated block comment.
func c06RefSkip(buf string, p int) (int, bool) {
	for p < len(buf) {
		c := buf[p]
		if c == ' ' || c == '\t' {
			p++
			continue
		}
		if c == '/' && p+1 < len(buf) && buf[p+1] == '*' {
			q := p + 2
			for {
				if q+1 >= len(buf) {
					return 0, false
				}
				if buf[q] == '*' && buf[q+1] == '/' {
					break
				}
				q++
			}
			p = q + 2
			continue
		}
		if c == '/' && p+1 < len(buf) && buf[p+1] == '/' {
			for p < len(buf) && buf[p] != '\n' {
				p++
			}
			continue
		}
		break
	}
	return p, true
}

func c06TrueCol(buf string, at int) int {
	col := 0
	for i := at - 1; i >= 0 && buf[i] != '\n'; i-- {
		col++
	}
	return col
}

func c06HasNL(buf string, from, to int) bool {
	for i := from; i < to; i++ {
		if buf[i] == '\n' {
			return true
		}
	}
	return false
}

func c06SameToken(a, b Token) bool {
	return a.ttype == b.ttype && a.begin == b.begin && a.len == b.len && a.stringVal == b.stringVal && a.intVal == b.intVal
}

func c06IsSpace(t Token) bool { _, ok := t.ttype.(TokenType_SPACE); return ok }
func c06IsEOL(t Token) bool   { _, ok := t.ttype.(TokenType_EOL); return ok }
func c06IsEOF(t Token) bool   { _, ok := t.ttype.(TokenType_EOF); return ok }

// one step of the tokenizer from a token at p with the true column
func Harness_C06A_tkzNext() {
	buf := symBuf("buf", c06N())
	p := verifChoice("pos", len(buf)+1)
	var t Token
	pan, _ := tryRun(func() { t = scanTokenAt(buf, p) })
	if pan || c06IsSpace(t) {
		return // malformed input / not a position where a token of the stream begins
	}
	if _, si := t.ttype.(TokenType_SINTERP); si {
		verifAssert(t.begin == p, "an interpolated-string token begins at its $ (its column is the column where it is written)")
	}
	// boundary of the layout grammar: tokens and comments do not span lines
	if !c06IsEOL(t) {
		verifAssume(!c06HasNL(buf, t.begin, t.begin+t.len))
	}
	q, ok := c06RefSkip(buf, t.begin+t.len)
	if !ok {
		return
	}
	verifAssume(!c06HasNL(buf, t.begin+t.len, q))
	var want Token
	pan, _ = tryRun(func() { want = scanTokenAt(buf, q) })
	if pan {
		return
	}
	tkz := Tokenizer{buf: buf, current: t, col: c06TrueCol(buf, t.begin)}
	var nt Tokenizer
	pan, msg := tryRun(func() { nt = tkzNext(tkz) })
	verifAssert(!pan, "tkzNext does not fail where the scanners succeed: "+msg)
	if c06IsEOF(t) {
		verifAssert(c06SameToken(nt.current, t), "EOF is a fixed point")
		return
	}
	verifAssert(!c06IsSpace(nt.current), "blanks and comments never produce a token of their own")
	verifAssert(c06SameToken(nt.current, want), "blanks, tabs and comments are transparent between tokens")
	verifAssert(nt.col == c06TrueCol(buf, nt.current.begin), "col is the true column of the current token")
	verifCover("end")
}

// a token is a function of the bytes from its begin on
func Harness_C06A_Translation() {
	buf := symBuf("buf", c06N())
	p := verifChoice("pos", len(buf)+1)
	var a, b Token
	pa, _ := tryRun(func() { a = scanTokenAt(buf, p) })
	pb, _ := tryRun(func() { b = scanTokenAt(buf[p:], 0) })
	verifAssert(pa == pb, "whether a token can be scanned depends only on the bytes from its begin on")
	if !pa {
		if _, si := a.ttype.(TokenType_SINTERP); si {
			verifAssert(a.begin == p && b.begin == 0, "an interpolated-string token begins at its $ (its column is the column where it is written)")
			verifAssert(a.ttype == b.ttype && a.len == b.len && a.stringVal == b.stringVal, "type, length and text of a token depend only on the bytes from its begin on")
			return
		}
		verifAssert(a.ttype == b.ttype && a.len == b.len && a.stringVal == b.stringVal && a.intVal == b.intVal && a.begin == p && b.begin == 0,
			"type, length and text of a token depend only on the bytes from its begin on")
	}
	verifCover("end")
}

func Harness_C06A_newTkz() {
	buf := symBuf("buf", c06N())
	q, ok := c06RefSkip(buf, 0)
	if !ok {
		return
	}
	verifAssume(!c06HasNL(buf, 0, q))
	var want Token
	pan, _ := tryRun(func() { want = scanTokenAt(buf, q) })
	if pan {
		return
	}
	var tkz Tokenizer
	pan, msg := tryRun(func() { tkz = newTkz(buf) })
	verifAssert(!pan, "newTkz does not fail where the scanners succeed: "+msg)
	verifAssert(c06SameToken(tkz.current, want), "leading blanks and comments are skipped")
	verifAssert(tkz.col == c06TrueCol(buf, tkz.current.begin), "col of the first token is its true column")
	verifCover("end")
}

// tkzNextNOL: additionally skips EOL tokens; col stays true
func Harness_C06A_tkzNextNOL() {
	buf := symBuf("buf", c06N()-1)
	var t Token
	pan, _ := tryRun(func() { t = scanTokenAt(buf, 0) })
	if pan || c06IsSpace(t) {
		return
	}
	// assumption: no token / comment spans lines in this buffer
	for i := 0; i < len(buf); i++ {
		verifAssume(buf[i] != '`')
		verifAssume(buf[i] != '*')
		verifAssume(buf[i] != '"')
	}
	tkz := Tokenizer{buf: buf, current: t, col: 0}
	var nt Tokenizer
	pan, _ = tryRun(func() { nt = tkzNextNOL(tkz) })
	if pan {
		return
	}
	verifAssert(!c06IsEOL(nt.current) && !c06IsSpace(nt.current), "tkzNextNOL stops at a token that is neither blank nor EOL")
	verifAssert(nt.col == c06TrueCol(buf, nt.current.begin), "col restarts after EOL tokens")
	verifCover("end")
}

// comments in context: blanks (0..2) + a block or line comment with one
// symbolic byte inside + two symbolic bytes after it.  Longer than the
// all-symbolic buffers above, structured so that the path count stays small.
func Harness_C06A_Comment() {
	pre := []string{"", " ", "  ", "\t", "x ", "x"}[verifChoice("pre", 6)]
	in := verifString("in", 1)
	tail := verifString("tail", 2)
	var buf string
	if verifChoice("kind", 2) == 0 {
		buf = pre + "/*" + in + "*/" + tail
	} else {
		verifAssume(in[0] != '\n')
		buf = pre + "//" + in + "\n" + tail
	}
	p := 0
	if len(pre) > 0 && pre[0] == 'x' {
		p = 1
	}
	q, ok := c06RefSkip(buf, p)
	if !ok {
		return
	}
	var sp Token
	pan, msg := tryRun(func() { sp = scanSpaceToken(buf, p) })
	verifAssert(!pan, "scanSpaceToken does not fail on a terminated comment: "+msg)
	verifAssert(sp.begin == p && sp.begin+sp.len == q, "blanks and comments are skipped exactly (nothing after the comment is swallowed)")
	if p == 1 {
		var want, got Token
		pw, _ := tryRun(func() { want = scanTokenAt(buf, q) })
		pg, _ := tryRun(func() { got = nextToken(buf, scanTokenAt(buf, 0)) })
		if !pw && !pg && q < len(buf) {
			verifAssert(c06SameToken(got, want), "the token after a comment is the one that follows it")
		}
	}
	verifCover("end")
}
