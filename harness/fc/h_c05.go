package main

import "strings"

// C05: under the map-order oracle (every map iteration order is a
// nondeterministic choice of the engine) the real main() must produce the
// same exit status and the same output files on every path.  The driver
// compares the digests recorded by verifOutput across paths.
func Harness_C05_Template() {
	files := strings.Split(verifEnv("VERIF_FILES"), " ")
	args := []string{"fc"}
	for _, f := range files {
		base := f
		if k := strings.LastIndex(f, "/"); k >= 0 {
			base = f[k+1:]
		}
		verifSetFile(base, verifHostFile(f))
		args = append(args, base)
	}
	// the other thing a run may see besides its input: outputs of an earlier
	// run (longer than the new ones) already at the destinations
	if verifEnv("VERIF_STALE") == "1" && verifChoice("stale", 2) == 1 {
		stale := "// stale output of an earlier run\n"
		for k := 0; k < 9; k++ {
			stale += stale
		}
		for _, a := range args[1:] {
			if strings.HasSuffix(a, ".fo") {
				verifSetFile("gen_"+a[:len(a)-3]+".go", stale)
			}
		}
	}
	verifSetArgs(args)
	code := verifRunMain(main)
	res := "exit=" + itoaV(code) + "\n"
	for k := 0; k < verifNumWrites(); k++ {
		p, d, ok := verifWrite(k)
		if ok {
			res += "== " + p + "\n" + d
		}
	}
	verifOutput("result", res)
	verifOutput("stdout", verifStdout())
	verifCover("end")
}
