package main

import "strings"

// C05: under the map-order oracle (every map iteration order is a
// nondeterministic choice of the engine) the real main() must produce the
// same exit status and the same output files on every path.  The driver
// compares the digests recorded by verifOutput across paths.
func Harness_C05_Template() {
	files := strings.Split(verifEnv("VERIF_FILES"), " ")
	args := []string{"fc"}
	for _, f := range files {
		base := f
		if k := strings.LastIndex(f, "/"); k >= 0 {
			base = f[k+1:]
		}
		verifSetFile(base, verifHostFile(f))
		args = append(args, base)
	}
	verifSetArgs(args)
	code := verifRunMain(main)
	res := "exit=" + itoaV(code) + "\n"
	for k := 0; k < verifNumWrites(); k++ {
		p, d, ok := verifWrite(k)
		if ok {
			res += "== " + p + "\n" + d
		}
	}
	verifOutput("result", res)
	verifOutput("stdout", verifStdout())
	verifCover("end")
}
