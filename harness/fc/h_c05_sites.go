package main

import "github.com/karino2/folang/pkg/dict"

// C05 site lemmas: each consumer of dict.Keys/Values/KVs runs on a
// dictionary of <= 3 entries with SYMBOLIC keys under every enumeration
// order (forced by verifSetMapOrder inside one path) and must give an
// order-independent result.

func c05SymName(tag string, avoid []string) string {
	n := verifString(tag, 2)
	for i := 0; i < 2; i++ {
		verifAssume(n[i] >= 'a')
		verifAssume(n[i] <= 'z')
	}
	for _, a := range avoid {
		verifAssume(n != a)
	}
	return n
}

// record literal resolution among records with symbolic names: the chosen
// record does not depend on the enumeration order of the scope's dictionary
func Harness_C05_Site_scLookupRecFac() {
	n := 2 + verifChoice("records", 2)
	var names []string
	sc := NewScope0()
	fieldsA := []NameTypePair{{Name: "X", Ftype: New_FType_FInt}, {Name: "Y", Ftype: New_FType_FInt}}
	fieldsB := []NameTypePair{{Name: "Y", Ftype: New_FType_FInt}, {Name: "X", Ftype: New_FType_FInt}}
	for k := 0; k < n; k++ {
		nm := c05SymName("rec"+itoaV(k), names)
		names = append(names, nm)
		f := fieldsA
		if verifChoice("order"+itoaV(k), 2) == 1 {
			f = fieldsB
		}
		scRegisterRecFac(sc, nm, RecordFactory{Name: nm, Fields: f})
	}
	lit := []string{"X", "Y"}
	if verifChoice("litorder", 2) == 1 {
		lit = []string{"Y", "X"}
	}
	verifSetMapOrder(0)
	first := scLookupRecFac(sc, lit)
	for p := 1; p < verifMapOrders(); p++ {
		verifSetMapOrder(p)
		r := scLookupRecFac(sc, lit)
		verifAssert(r.E1 == first.E1 && r.E0.Name == first.E0.Name, "the record chosen for a literal does not depend on the enumeration order")
	}
	verifSetMapOrder(-1)
	verifCover("end")
}

// equivalence-set union and registration in the resolver
func Harness_C05_Site_eqs() {
	var names []string
	for k := 0; k < 4; k++ {
		names = append(names, "_T"+c05SymName("tv"+itoaV(k), nil))
	}
	for a := 0; a < 4; a++ {
		for b := a + 1; b < 4; b++ {
			verifAssume(names[a] != names[b])
		}
	}
	mk := func(xs ...string) EquivSet {
		es := newEquivSet0()
		for _, x := range xs {
			dict.Add(es.Dict, x, true)
		}
		return es
	}
	e1, e2 := mk(names[0], names[1]), mk(names[2], names[1], names[3])
	verifSetMapOrder(0)
	u0 := eqsUnion(e1, e2)
	for p := 1; p < verifMapOrders(); p++ {
		verifSetMapOrder(p)
		u := eqsUnion(e1, e2)
		for _, nm := range names {
			verifAssert(dict.ContainsKey(u.Dict, nm) == dict.ContainsKey(u0.Dict, nm), "eqsUnion is a set union in every enumeration order")
		}
		verifAssert(len(dict.Keys(u.Dict)) == len(dict.Keys(u0.Dict)), "eqsUnion has the same size in every enumeration order")
		res := newResolver()
		ei := EquivInfo{eset: u, resType: New_FType_FInt}
		rsRegisterNewEI(res, ei)
		for _, nm := range names {
			_, isInt := rsLookupEI(res, nm).resType.(FType_FInt)
			verifAssert(isInt, "rsRegisterNewEI registers every member in every enumeration order")
		}
	}
	verifSetMapOrder(-1)
	verifCover("end")
}

// exhaustiveness: accept / reject does not depend on the order (the case
// named by the diagnostic may)
func Harness_C05_Site_exhaustive() {
	src := "package main\n\ntype U =\n  | Aa\n  | Bb\n  | Cc\n\ntype V =\n  | Dd\n  | Ee\n\nlet f (u:U) =\n  match u with\n"
	mask := 1 + verifChoice("mask", 7)
	// an arm naming something that is not a case of U (a case of another
	// union): first, last or absent
	alien := verifChoice("alien", 3)
	if alien == 1 {
		src += "  | Dd -> 9\n"
	}
	for i, c := range []string{"Aa", "Bb", "Cc"} {
		if mask&(1<<i) != 0 {
			src += "  | " + c + " -> " + itoaV(i) + "\n"
		}
	}
	if alien == 2 {
		src += "  | Dd -> 9\n"
	}
	verifSetMapOrder(0)
	out0, p0, _ := compileSrc(src)
	if mask != 7 {
		verifAssert(p0, "a match that omits a case is rejected")
	}
	for p := 1; p < 24; p++ {
		verifSetMapOrder(p)
		out, pp, _ := compileSrc(src)
		verifAssert(pp == p0, "accept / reject does not depend on the enumeration order")
		if !pp {
			verifAssert(out == out0, "the emitted Go does not depend on the enumeration order")
		}
	}
	verifSetMapOrder(-1)
	verifCover("end")
}
