package main

// C09: a union match without default arm is accepted iff it covers every
// case.  The program is assembled from choices (number of cases, arms,
// default, context) and the case named by each arm; in the "Sym" family the
// arm names end in a symbolic digit byte, and the oracle is the formula
//   accept <=> default or (for every case some arm names it)
// over the same bytes.  Driven through the real main() with the virtual
// file system, so exit status, diagnostic and output file are observed.

func c09MaxCases() int { return envInt("VERIF_CASES", 3) }

func c09Payload(i int, uniform int) string {
	switch uniform {
	case 1:
		return " of int"
	case 2:
		return ""
	}
	// mixed
	switch i % 4 {
	case 0:
		return " of int"
	case 2:
		return " of string"
	}
	return ""
}

type c09Arm struct {
	digit byte // '0'+case index (symbolic in the Sym family)
	form  int  // 0 none, 1 "_", 2 bind
}

func c09Source(n int, uniform int, arms []c09Arm, deflt bool, ctx int) string {
	src := "package main\n\ntype U =\n"
	for i := 0; i < n; i++ {
		src += "  | Kase" + itoaV(i) + c09Payload(i, uniform) + "\n"
	}
	src += "\n"
	ind := "  "
	switch ctx {
	case 0:
		src += "let f (u:U) =\n"
	case 1:
		src += "let f (u:U) =\n  let r =\n"
		ind = "    "
	case 2:
		src += "let f (u:U) (c:bool) =\n  if c then\n"
		ind = "    "
	}
	src += ind + "match u with\n"
	for k, a := range arms {
		src += ind + "| Kase" + string([]byte{a.digit})
		switch a.form {
		case 1:
			src += " _"
		case 2:
			src += " x" + itoaV(k)
		}
		src += " -> " + itoaV(k+1) + "\n"
	}
	if deflt {
		src += ind + "| _ -> 0\n"
	}
	switch ctx {
	case 1:
		src += "  r\n"
	case 2:
		src += "  else\n    7\n"
	}
	return src
}

func c09Check(n int, arms []c09Arm, deflt bool, src string) {
	verifSetFile("t.fo", src)
	verifSetArgs([]string{"fc", "t.fo"})
	code := verifRunMain(main)
	// the oracle
	cover := true
	covered := make([]bool, n)
	for i := 0; i < n; i++ {
		c := false
		for _, a := range arms {
			if a.digit == byte('0'+i) {
				c = true
			}
		}
		covered[i] = c
		if !c {
			cover = false
		}
	}
	accept := deflt || cover
	out := verifStdout()
	if accept {
		verifAssert(code == 0, "a match that covers every case or has a default arm is accepted: "+out)
		verifAssert(verifNumWrites() == 1, "exactly one output file")
		gen, ok := verifFile("gen_t.go")
		verifAssert(ok, "gen_t.go is written")
		hasNever := indexOf(gen, "Never reached here", 0) >= 0
		verifAssert(hasNever == !deflt, "the never-reached fallback is emitted exactly when there is no default arm")
		for i := 0; i < n; i++ {
			if covered[i] {
				verifAssert(indexOf(gen, "case U_Kase"+itoaV(i)+":", 0) >= 0, "every named case has a type-switch arm")
			}
		}
		verifCover("accepted")
	} else {
		verifAssert(code != 0, "a match that omits a case and has no default arm is rejected")
		verifAssert(verifNumWrites() == 0, "no output file for a rejected program")
		verifAssert(indexOf(out, "t.fo:", 0) >= 0, "the diagnostic names the file")
		at := indexOf(out, "Can't find case: Kase", 0)
		verifAssert(at >= 0, "the diagnostic names an uncovered case")
		if at >= 0 {
			d := int(out[at+len("Can't find case: Kase")] - '0')
			verifAssert(d >= 0 && d < n && !covered[d], "the case named by the diagnostic is really uncovered")
		}
		verifCover("rejected")
	}
}

// Sym family: uniform payloads, arm names end in a symbolic digit.
func Harness_C09_Sym() {
	n := 1 + verifChoice("cases", c09MaxCases())
	uniform := 1 + verifChoice("payload", 2) // 1: every case has a payload, 2: none has
	k := 1 + verifChoice("arms", n+1)
	var arms []c09Arm
	for j := 0; j < k; j++ {
		d := verifByte("arm" + itoaV(j))
		verifAssume(d >= '0')
		verifAssume(d < byte('0'+n))
		form := 0
		if uniform == 1 {
			form = 1 + verifChoice("form"+itoaV(j), 2)
		}
		arms = append(arms, c09Arm{d, form})
	}
	deflt := verifChoice("default", 2) == 1
	ctx := verifChoice("ctx", 3)
	c09Check(n, arms, deflt, c09Source(n, uniform, arms, deflt, ctx))
}

// Mixed family: payload / no-payload mixes, the case of each arm is a choice.
func Harness_C09_Mixed() {
	n := 1 + verifChoice("cases", c09MaxCases())
	k := 1 + verifChoice("arms", n+1)
	var arms []c09Arm
	for j := 0; j < k; j++ {
		c := verifChoice("arm"+itoaV(j), n)
		form := 0
		if c09Payload(c, 0) != "" {
			form = 1 + verifChoice("form"+itoaV(j), 2)
		}
		arms = append(arms, c09Arm{byte('0' + c), form})
	}
	deflt := verifChoice("default", 2) == 1
	c09Check(n, arms, deflt, c09Source(n, 0, arms, deflt, 0))
}

// a match nested in an if inside an inner function used in a pipe, on a generic union
func Harness_C09_Nested() {
	miss := verifChoice("miss", 3) // which arm is dropped (2 = none)
	deflt := verifChoice("default", 2) == 1
	src := "package main\n\ntype R<T> =\n  | Ok of T\n  | Err of string\n\nlet g (xs:[]R<int>) =\n  let one (r:R<int>) =\n    if true then\n      match r with\n"
	if miss != 0 {
		src += "      | Ok v -> v\n"
	}
	if miss != 1 {
		src += "      | Err _ -> 0\n"
	}
	if deflt {
		src += "      | _ -> 1\n"
	}
	src += "    else\n      5\n  xs |> slice.Map one\n"
	pre := "package_info slice =\n  let Map<T, U> : (T->U)->[]T->[]U\n\n"
	verifSetFile("t.fo", pre+src)
	verifSetArgs([]string{"fc", "t.fo"})
	code := verifRunMain(main)
	accept := deflt || miss == 2
	if accept {
		verifAssert(code == 0 && verifNumWrites() == 1, "nested match covering all cases (or defaulted) is accepted: "+verifStdout())
	} else {
		verifAssert(code != 0 && verifNumWrites() == 0, "nested match omitting a case is rejected")
	}
	verifCover("end")
}

// several matches on the same union in one run: each is judged on its own
// (coverage of one match must not leak into another: earlier function,
// later function, or a match nested inside an arm of another)
func Harness_C09_TwoMatches() {
	n := 3
	shape := verifChoice("shape", 5) // 0: two functions, 1: inner match nested in an arm of the outer, 2: two functions in two files,
	// 3: inner match as the final expression of an arm that is followed by the outer match's default arm, 4: the same, inner match bound by let
	// which cases each match names (non-empty subsets by bit mask)
	m1 := 1 + verifChoice("mask1", 7)
	m2 := 1 + verifChoice("mask2", 7)
	arms := func(mask int, ind string, res string) string {
		s := ""
		for i := 0; i < n; i++ {
			if mask&(1<<i) != 0 {
				s += ind + "| Kase" + itoaV(i) + " -> " + res + "\n"
			}
		}
		return s
	}
	typ := "type U =\n  | Kase0\n  | Kase1\n  | Kase2\n\n"
	full := 7
	accept := m1 == full && m2 == full
	var files, contents []string
	switch shape {
	case 0:
		src := "package main\n\n" + typ + "let f (u:U) =\n  match u with\n" + arms(m1, "  ", "1") + "\nlet g (u:U) =\n  match u with\n" + arms(m2, "  ", "2") + "\n"
		files, contents = []string{"t.fo"}, []string{src}
	case 1:
		// the inner match sits in the first arm of the outer one
		first := 0
		for first < n && m1&(1<<first) == 0 {
			first++
		}
		src := "package main\n\n" + typ + "let f (u:U) (w:U) =\n  match u with\n"
		for i := 0; i < n; i++ {
			if m1&(1<<i) == 0 {
				continue
			}
			if i == first {
				src += "  | Kase" + itoaV(i) + " ->\n    match w with\n" + arms(m2, "    ", "2")
			} else {
				src += "  | Kase" + itoaV(i) + " -> 1\n"
			}
		}
		files, contents = []string{"t.fo"}, []string{src}
	case 3, 4:
		// the outer match is defaulted, so only the inner one decides
		accept = m2 == full
		src := "package main\n\n" + typ + "let f (u:U) (w:U) =\n  match u with\n  | Kase1 -> 1\n  | Kase0 ->\n"
		if shape == 3 {
			src += "    match w with\n" + arms(m2, "    ", "2")
		} else {
			src += "    let k = match w with\n" + arms(m2, "            ", "2") + "    k + 1\n"
		}
		src += "  | _ -> 9\n"
		files, contents = []string{"t.fo"}, []string{src}
	case 2:
		a := "package main\n\n" + typ + "let f (u:U) =\n  match u with\n" + arms(m1, "  ", "1") + "\n"
		b := "package main\n\nlet g (u:U) =\n  match u with\n" + arms(m2, "  ", "2") + "\n"
		files, contents = []string{"t.fo", "t2.fo"}, []string{a, b}
	}
	args := []string{"fc"}
	for i, f := range files {
		verifSetFile(f, contents[i])
		args = append(args, f)
	}
	verifSetArgs(args)
	code := verifRunMain(main)
	if accept {
		verifAssert(code == 0, "every match covers every case: accepted: "+verifStdout())
	} else {
		verifAssert(code != 0, "a match that omits a case is rejected whatever other matches on the same union cover")
	}
	verifCover("end")
}

// the matched value's type is not known when the match is parsed (a lambda
// parameter without annotation; inference resolves it to the union later).
// fc as it stands refuses such matches outright; whatever it does, a match
// that omits a case and has no default arm must never be accepted.  (Nothing
// is claimed here about the accepting direction.)
func Harness_C09_UntypedTarget() {
	n := 1 + verifChoice("cases", c09MaxCases())
	k := 1 + verifChoice("arms", n+1)
	var arms []c09Arm
	covered := make([]bool, n)
	for j := 0; j < k; j++ {
		c := verifChoice("arm"+itoaV(j), n)
		form := 0
		if c09Payload(c, 0) != "" {
			form = 1 + verifChoice("form"+itoaV(j), 2)
		}
		arms = append(arms, c09Arm{byte('0' + c), form})
		covered[c] = true
	}
	deflt := verifChoice("default", 2) == 1
	ctx := verifChoice("ctx", 2)
	src := "package main\n\npackage_info slice =\n  let Map<T, U> : (T->U)->[]T->[]U\n\ntype U =\n"
	for i := 0; i < n; i++ {
		src += "  | Kase" + itoaV(i) + c09Payload(i, 0) + "\n"
	}
	tail := ""
	if ctx == 0 {
		src += "\nlet f (us:[]U) =\n  slice.Map (fun u ->\n    match u with\n"
		tail = ") us\n"
	} else {
		src += "\nlet ap (g:U->int) (v:U) = g v\n\nlet f (w:U) =\n  ap (fun u ->\n    match u with\n"
		tail = ") w\n"
	}
	var lines []string
	for j, a := range arms {
		l := "    | Kase" + string([]byte{a.digit})
		switch a.form {
		case 1:
			l += " _"
		case 2:
			l += " x" + itoaV(j)
		}
		lines = append(lines, l+" -> "+itoaV(j+1))
	}
	if deflt {
		lines = append(lines, "    | _ -> 0")
	}
	for j, l := range lines {
		src += l
		if j == len(lines)-1 {
			src += tail
		} else {
			src += "\n"
		}
	}
	verifSetFile("t.fo", src)
	verifSetArgs([]string{"fc", "t.fo"})
	code := verifRunMain(main)
	cover := true
	for _, c := range covered {
		if !c {
			cover = false
		}
	}
	if !deflt && !cover {
		verifAssert(code != 0, "a match on a not-yet-typed value that omits a case and has no default arm is rejected")
		verifAssert(verifNumWrites() == 0, "no output file for a rejected program")
		verifCover("rejected")
	} else if code == 0 {
		gen, _ := verifFile("gen_t.go")
		verifAssert((indexOf(gen, "Never reached here", 0) >= 0) == !deflt, "the never-reached fallback is emitted exactly when there is no default arm")
	}
	verifCover("end")
}

// a binding arm whose variable has the name of an outer variable of ANOTHER
// union type, and that outer variable matched on later (in a later arm of
// the same match, or after it): the arm variable is local to its arm, so the
// later match is judged against the outer variable's union
func Harness_C09_ShadowedTarget() {
	name := []string{"w", "z"}[verifChoice("name", 2)]
	mask := 1 + verifChoice("mask", 3)
	deflt := verifChoice("default", 2) == 1
	place := verifChoice("place", 2)
	src := "package main\n\ntype Inner =\n  | I1\n  | I2\n\ntype Other =\n  | O1\n  | O2\n  | O3\n\ntype Outer =\n  | P of Other\n  | Q\n\n" +
		"let rank (o:Other) =\n  match o with\n  | O1 -> 10\n  | O2 -> 20\n  | O3 -> 30\n\nlet f (v:Outer) (w:Inner) =\n"
	arms := func(ind string) string {
		s := ""
		if mask&1 != 0 {
			s += ind + "| I1 -> 1\n"
		}
		if mask&2 != 0 {
			s += ind + "| I2 -> 2\n"
		}
		if deflt {
			s += ind + "| _ -> 3\n"
		}
		return s
	}
	if place == 0 {
		src += "  match v with\n  | P " + name + " -> rank " + name + "\n  | Q ->\n    match w with\n" + arms("    ")
	} else {
		src += "  let a = match v with\n          | P " + name + " -> rank " + name + "\n          | Q -> 0\n  let b = match w with\n" + arms("          ") + "  a + b\n"
	}
	verifSetFile("t.fo", src)
	verifSetArgs([]string{"fc", "t.fo"})
	code := verifRunMain(main)
	if deflt || mask == 3 {
		verifAssert(code == 0 && verifNumWrites() == 1, "a match covering the cases of the outer variable's union (or defaulted) is accepted: "+verifStdout())
		gen, _ := verifFile("gen_t.go")
		if mask&1 != 0 {
			verifAssert(indexOf(gen, "case Inner_I1:", 0) >= 0, "the later match switches over the outer variable's union")
		}
		verifCover("accepted")
	} else {
		verifAssert(code != 0, "a match omitting a case of the outer variable's union is rejected")
		verifAssert(verifNumWrites() == 0, "no output file for a rejected program")
		verifAssert(indexOf(verifStdout(), "Can't find case: I", 0) >= 0, "the diagnostic names an uncovered case of the outer variable's union")
		verifCover("rejected")
	}
	verifCover("end")
}

// the union has been USED before the match is parsed (a call of a function
// whose signature mentions it, a payload constructor, a match on a function
// result): whatever such uses write into the union's table entry, the match
// is judged against all cases, payload-less ones included
func Harness_C09_AfterUse() {
	mask := 1 + verifChoice("mask", 7)
	deflt := verifChoice("default", 2) == 1
	pre := verifChoice("pre", 4)
	src := "package main\n\ntype U =\n  | Kase0 of int\n  | Kase1\n  | Kase2\n\nlet show (u:U) =\n  1\n\nlet mk (a:int) =\n  if a > 0 then\n    Kase0 a\n  else\n    Kase1\n\n"
	target := "u"
	switch pre {
	case 0:
		src += "let f (u:U) =\n"
	case 1: // a call of a function whose signature mentions the union
		src += "let f (u:U) =\n  let k = show u\n"
	case 2: // a payload constructor before the match
		src += "let f (a:int) =\n  let u = Kase0 a\n"
	default: // a match on a function result
		src += "let f (a:int) =\n"
		target = "mk a"
	}
	src += "  match " + target + " with\n"
	forms := []string{"  | Kase0 x -> x\n", "  | Kase1 -> 1\n", "  | Kase2 -> 2\n"}
	for i := 0; i < 3; i++ {
		if mask&(1<<i) != 0 {
			src += forms[i]
		}
	}
	if deflt {
		src += "  | _ -> 9\n"
	}
	verifSetFile("t.fo", src)
	verifSetArgs([]string{"fc", "t.fo"})
	code := verifRunMain(main)
	if deflt || mask == 7 {
		verifAssert(code == 0 && verifNumWrites() == 1, "a match that covers every case or has a default arm is accepted: "+verifStdout())
		verifCover("accepted")
	} else {
		verifAssert(code != 0, "a match that omits a case and has no default arm is rejected, whatever used the union before")
		verifAssert(verifNumWrites() == 0, "no output file for a rejected program")
		verifCover("rejected")
	}
	verifCover("end")
}
