package main

// C16 group 1: scanner totality at byte level.  For every buffer of <= N
// symbolic bytes and every start offset each scanner returns or panics
// inside the instruction budget (a path that exhausts the budget is replayed
// natively under a timeout and reported as a hang), a returned token lies
// inside the buffer, and nextToken makes progress.

func c16N() int { return envInt("VERIF_N", 6) }

func c16BufPos() (string, int) {
	buf := symBuf("buf", c16N())
	pos := verifChoice("pos", len(buf)+1)
	return buf, pos
}

func c16Inside(buf string, pos int, tk Token) {
	verifAssert(tk.begin >= pos && tk.len >= 0 && tk.begin+tk.len <= len(buf), "token lies inside the buffer")
}

func Harness_C16_scanSpaceToken() {
	buf, pos := c16BufPos()
	var tk Token
	p, _ := tryRun(func() { tk = scanSpaceToken(buf, pos) })
	if !p {
		c16Inside(buf, pos, tk)
	}
	verifCover("end")
}

func Harness_C16_scanIdentifierToken() {
	buf, pos := c16BufPos()
	verifAssume(pos < len(buf))
	var tk Token
	p, _ := tryRun(func() { tk = scanIdentifierToken(buf, pos) })
	if !p {
		c16Inside(buf, pos, tk)
	}
	verifCover("end")
}

func Harness_C16_scanIntImmToken() {
	buf, pos := c16BufPos()
	verifAssume(pos < len(buf))
	var tk Token
	p, _ := tryRun(func() { tk = scanIntImmToken(buf, pos) })
	if !p {
		c16Inside(buf, pos, tk)
	}
	verifCover("end")
}

func Harness_C16_scanStringLiteralToken() {
	buf, pos := c16BufPos()
	verifAssume(pos < len(buf))
	var tk Token
	p, _ := tryRun(func() { tk = scanStringLiteralToken(buf, pos) })
	if !p {
		c16Inside(buf, pos, tk)
	}
	verifCover("end")
}

func Harness_C16_scanRawStringLiteralToken() {
	buf, pos := c16BufPos()
	verifAssume(pos < len(buf))
	var tk Token
	p, _ := tryRun(func() { tk = scanRawStringLiteralToken(buf, pos) })
	if !p {
		c16Inside(buf, pos, tk)
	}
	verifCover("end")
}

func Harness_C16_scanTokenAt() {
	buf, pos := c16BufPos()
	var tk Token
	p, _ := tryRun(func() { tk = scanTokenAt(buf, pos) })
	if !p {
		c16Inside(buf, pos, tk)
		if pos < len(buf) {
			verifAssert(tk.len > 0, "a token at a non-EOF position is not empty")
		}
	}
	verifCover("end")
}

// nextToken makes progress: from any token the next one ends strictly later,
// or is EOF at the end of the buffer.
func Harness_C16_nextTokenProgress() {
	buf := symBuf("buf", c16N()-1)
	pos := verifChoice("pos", len(buf)+1)
	var tk, nt Token
	p, _ := tryRun(func() { tk = scanTokenAt(buf, pos) })
	if p {
		return
	}
	p, _ = tryRun(func() { nt = nextToken(buf, tk) })
	if p {
		return
	}
	if _, eof := nt.ttype.(TokenType_EOF); eof {
		verifAssert(nt.begin == len(buf), "EOF token sits at the end of the buffer")
	} else {
		verifAssert(nt.begin >= tk.begin+tk.len && nt.begin+nt.len > tk.begin+tk.len, "nextToken makes progress")
		verifAssert(nt.begin+nt.len <= len(buf), "token lies inside the buffer")
	}
	verifCover("end")
}

// The tokenizer object: newTkz / tkzNext / tkzNextNOL terminate.
func Harness_C16_tkzNext() {
	buf := symBuf("buf", c16N()-2)
	tryRun(func() {
		tkz := newTkz(buf)
		tkz = tkzNext(tkz)
		tkz = tkzNextNOL(tkz)
		_ = tkz
	})
	verifCover("end")
}

func Harness_C16_ParseSInterP() {
	buf := symBuf("buf", c16N())
	tryRun(func() { ParseSInterP(buf) })
	verifCover("end")
}

func Harness_C16_reinterpretEscape() {
	buf := symBuf("buf", c16N())
	tryRun(func() { reinterpretEscape(buf) })
	verifCover("end")
}

func Harness_C16_PosToFilePosInfo() {
	buf := symBuf("buf", c16N())
	at := verifInt("at")
	var r FilePosInfo
	p, _ := tryRun(func() { r = PosToFilePosInfo(buf, at) })
	verifAssert(!p, "PosToFilePosInfo is total")
	verifAssert(r.LineNum >= 1 && r.ColNum >= 1, "positions are 1-based")
	verifCover("end")
}

// white space longer than the all-symbolic buffers, structured: a run of
// blanks / block comments / a line comment in sequence, one symbolic byte
// inside each comment and two after the run: scanSpaceToken terminates inside
// the buffer (budget = unwinding assertion) wherever it starts
func Harness_C16_SpaceRuns() {
	pieces := []string{" ", "\t", "/*", "//"}
	buf := ""
	n := 1 + verifChoice("pieces", 4)
	for k := 0; k < n; k++ {
		switch pieces[verifChoice("piece"+itoaV(k), len(pieces))] {
		case " ":
			buf += " "
		case "\t":
			buf += "\t"
		case "/*":
			buf += "/*" + symBuf("c"+itoaV(k), 1) + "*/"
		default:
			buf += "//" + symBuf("l"+itoaV(k), 1) + "\n"
		}
	}
	if verifChoice("open", 2) == 1 {
		buf += "/* " + symBuf("o", 1) // an unterminated comment at the end
	}
	buf += symBuf("tail", 2)
	pos := verifChoice("pos", 3)
	verifAssume(pos <= len(buf))
	var tk Token
	p, _ := tryRun(func() { tk = scanSpaceToken(buf, pos) })
	if !p {
		c16Inside(buf, pos, tk)
	}
	verifCover("end")
}
