package main

// C16 group 2: driver discipline with the environment as variables.  The
// real main() runs over the virtual file system on 0..2 arguments; each
// argument is a choice of file kind, every output path may be unwritable.
// exit 0  => every requested gen_*.go was written completely and its write
// succeeded; otherwise: non-zero exit, a diagnostic, and no output for the
// offending file.

const c16Valid1 = "package main\n\nlet add (a:int) (b:int) =\n  a + b\n"
const c16Valid2 = "package main\n\ntype R = {X: int}\n\nlet mk () =\n  {X=1}\n"
const c16Foi = "package_info ext =\n  let Twice: int -> int\n"
const c16Syntax = "package main\n\nlet f (a:int =\n  a\n"
const c16Infer = "package main\n\nlet f (a:int) =\n  undefinedVar + a\n"
const c16NonEx = "package main\n\ntype U =\n  | A\n  | B\n\nlet f (u:U) =\n  match u with\n  | A -> 1\n"

type c16File struct {
	name    string
	content string
	kind    int // 0 valid.fo 1 valid2.fo 2 .foi 3 syntax error 4 unknown variable 5 non-exhaustive 6 missing
}

func c16Pick(i int) c16File {
	k := verifChoice("kind"+itoaV(i), 7)
	n := "m.p" + itoaV(i) // base names with a further dot that share their first component: X.fo yields gen_X.go for the whole X
	switch k {
	case 0:
		return c16File{n + ".fo", c16Valid1, k}
	case 1:
		return c16File{n + ".fo", c16Valid2, k}
	case 2:
		return c16File{n + ".foi", c16Foi, k}
	case 3:
		return c16File{n + ".fo", c16Syntax, k}
	case 4:
		return c16File{n + ".fo", c16Infer, k}
	case 5:
		return c16File{n + ".fo", c16NonEx, k}
	}
	return c16File{n + ".fo", "", k}
}

func (f c16File) bad() bool  { return f.kind >= 3 }
func (f c16File) isFo() bool { return f.kind != 2 }
func (f c16File) gen() string {
	return "gen_" + f.name[:len(f.name)-3] + ".go"
}

func Harness_C16_Driver() {
	n := verifChoice("nargs", 3)
	args := []string{"fc"}
	var files []c16File
	unwritable := -1
	// an output of an earlier run (longer than the new one) may already be there
	stale := "// stale output of an earlier run\n"
	for k := 0; k < 6; k++ {
		stale += stale
	}
	hasStale := make([]bool, n)
	for i := 0; i < n; i++ {
		f := c16Pick(i)
		files = append(files, f)
		args = append(args, f.name)
		if f.kind != 6 {
			verifSetFile(f.name, f.content)
		}
		if f.isFo() && !f.bad() && verifChoice("stale"+itoaV(i), 2) == 1 {
			hasStale[i] = true
			verifSetFile(f.gen(), stale)
		}
		if f.isFo() && !f.bad() && !hasStale[i] && unwritable < 0 && verifChoice("unwritable"+itoaV(i), 2) == 1 {
			unwritable = i
			verifFailWrite(f.gen())
		}
	}
	verifSetArgs(args)
	code := verifRunMain(main)
	out := verifStdout() + verifStderr()

	// the first offending argument stops the run
	firstBad := -1
	for i, f := range files {
		if f.bad() || i == unwritable {
			firstBad = i
			break
		}
	}
	if firstBad < 0 {
		verifAssert(code == 0, "all arguments fine: exit status 0: "+out)
	} else {
		verifAssert(code != 0, "an offending argument gives a non-zero exit status")
		if firstBad != unwritable || files[firstBad].bad() {
			verifAssert(indexOf(out, files[firstBad].name+":", 0) >= 0 || indexOf(out, "Can't open file", 0) >= 0 || indexOf(out, "panic", 0) >= 0, "a diagnostic names the offending file")
		}
	}
	for i, f := range files {
		if !f.isFo() {
			_, ok := verifFile("gen_" + f.name[:len(f.name)-4] + ".go")
			verifAssert(!ok, "a .foi argument yields no file")
			continue
		}
		g, ok := verifFile(f.gen())
		if i == unwritable {
			continue
		}
		switch {
		case firstBad >= 0 && i >= firstBad && hasStale[i]:
			verifAssert(ok && g == stale, "an existing output is left as it was when the run fails before it")
		case firstBad >= 0 && i == firstBad:
			verifAssert(!ok, "nothing is written for the offending file")
		case firstBad >= 0 && i > firstBad:
			verifAssert(!ok, "nothing is written after the run failed")
		default:
			verifAssert(ok, "every requested gen file before a failure is written")
			want, p, _ := compileSrc(f.content)
			verifAssert(!p && g == want, "the gen file is complete")
		}
	}
	if code == 0 {
		for _, f := range files {
			if f.isFo() {
				_, ok := verifFile(f.gen())
				verifAssert(ok, "exit status 0 only if every requested gen file exists")
			}
		}
	}
	verifCover("end")
}
