package main

import "strings"

// Harness_Validate_Files runs the real main() on the host files named in
// VERIF_FILES (space separated) and emits every written file, so that the
// driver can compare the engine's execution with the native binary's.
func Harness_Validate_Files() {
	files := strings.Split(verifEnv("VERIF_FILES"), " ")
	args := []string{"fc"}
	for _, f := range files {
		verifSetFile(f, verifHostFile(f))
		args = append(args, f)
	}
	verifSetArgs(args)
	code := verifRunMain(main)
	verifOutput("exit", string(rune('0'+code)))
	verifOutput("stdout", verifStdout())
	for k := 0; k < verifNumWrites(); k++ {
		p, d, ok := verifWrite(k)
		if ok {
			verifOutput("file:"+p, d)
		}
	}
	verifCover("end")
}
