package main

// C11 (byte level): for each literal form the body is N symbolic bytes from
// the property's domain; the real scanner and the real emission path produce
// Go source text g; the oracle chain goUnquote(g) [+ the real frt.SInterP on
// the unquoted format and symbolic hole values] must equal denote(body).

import (
	"strconv"

	"github.com/karino2/folang/pkg/frt"
)

func c11N() int { return envInt("VERIF_N", 4) }

// c11Body: l symbolic bytes, each printable ASCII, tab or newline.
func c11Body(n int) string {
	b := symBuf("body", n)
	for i := 0; i < len(b); i++ {
		c := b[i]
		verifAssume((c >= 0x20 && c <= 0x7e) || c == '\n' || c == '\t')
	}
	return b
}

// goUnquote: value of a Go interpreted string literal body (between the
// quotes).  ok=false: not a valid Go literal (raw newline, unknown escape,
// unescaped quote).  Natively this is strconv.Unquote itself; inside symgo
// the call is served by verifModel_strconv_Unquote below (same contract for
// the escapes that can occur here), so a native replay checks the emitted
// literal against the real Go rule.
func goUnquote(s string) (string, bool) {
	v, err := strconv.Unquote("\"" + s + "\"")
	return v, err == nil
}

type verifUnquoteErr struct{}

func (verifUnquoteErr) Error() string { return "invalid syntax" }

func verifModel_strconv_Unquote(q string) (string, error) {
	v, ok := goUnquoteModel(q[1 : len(q)-1])
	if !ok {
		return "", verifUnquoteErr{}
	}
	return v, nil
}

func goUnquoteModel(s string) (string, bool) {
	var out []byte
	for i := 0; i < len(s); i++ {
		c := s[i]
		if c == '\n' || c == '"' {
			return "", false
		}
		if c != '\\' {
			out = append(out, c)
			continue
		}
		i++
		if i >= len(s) {
			return "", false
		}
		switch s[i] {
		case 'n':
			out = append(out, '\n')
		case 't':
			out = append(out, '\t')
		case '\\':
			out = append(out, '\\')
		case '"':
			out = append(out, '"')
		case 'a':
			out = append(out, 7)
		case 'b':
			out = append(out, 8)
		case 'f':
			out = append(out, 12)
		case 'r':
			out = append(out, 13)
		case 'v':
			out = append(out, 11)
		default:
			return "", false
		}
	}
	return string(out), true
}

func dummyStmtToGo(s Stmt) string { return "" }

// ---- "…"

// escapesOK: every backslash starts one of the allowed escapes; no bare quote.
func c11EscapesOK(body string, allowed string) bool {
	for i := 0; i < len(body); i++ {
		c := body[i]
		if c == '"' {
			return false
		}
		if c == '\\' {
			i++
			if i >= len(body) {
				return false
			}
			ok := false
			for k := 0; k < len(allowed); k++ {
				if body[i] == allowed[k] {
					ok = true
				}
			}
			if !ok {
				return false
			}
		}
	}
	return true
}

func denoteEscaped(body string, braces bool) string {
	var out []byte
	for i := 0; i < len(body); i++ {
		c := body[i]
		if c != '\\' {
			out = append(out, c)
			continue
		}
		i++
		switch body[i] {
		case 'n':
			out = append(out, '\n')
		case 't':
			out = append(out, '\t')
		default: // \\ \" and, in $"…", \{ \}
			out = append(out, body[i])
		}
	}
	return string(out)
}

func Harness_C11_String() {
	body := c11Body(c11N())
	verifAssume(c11EscapesOK(body, "nt\\\""))
	src := "\"" + body + "\"\n"
	tk := scanTokenAt(src, 0)
	_, isStr := tk.ttype.(TokenType_STRING)
	verifAssert(isStr && tk.len == len(body)+2, "the whole literal is one STRING token")
	g := ExprToGo(dummyStmtToGo, New_Expr_EStringLiteral(tk.stringVal))
	verifAssert(len(g) >= 2 && g[0] == '"' && g[len(g)-1] == '"', "emitted text is a quoted literal")
	val, ok := goUnquote(g[1 : len(g)-1])
	verifAssert(ok, "emitted \"...\" literal is valid Go")
	verifAssert(val == denoteEscaped(body, false), "\"...\" literal denotes its text")
	verifCover("end")
}

// ---- `…`

func Harness_C11_Raw() {
	body := c11Body(c11N())
	for i := 0; i < len(body); i++ {
		verifAssume(body[i] != '`')
	}
	src := "`" + body + "`\n"
	tk := scanTokenAt(src, 0)
	_, isStr := tk.ttype.(TokenType_STRING)
	verifAssert(isStr && tk.len == len(body)+2, "the whole literal is one STRING token")
	g := ExprToGo(dummyStmtToGo, New_Expr_EStringLiteral(tk.stringVal))
	val, ok := goUnquote(g[1 : len(g)-1])
	verifAssert(ok, "emitted `...` literal is valid Go")
	verifAssert(val == body, "`...` literal denotes exactly its characters")
	verifCover("end")
}

// ---- $"…" and $`…`

// c11ParseCall splits  frt.SInterP("<fmt>", a, b)  into the literal body and
// the argument names.
func c11ParseCall(g string) (lit string, args []string, ok bool) {
	const pre = "frt.SInterP(\""
	if len(g) < len(pre)+2 || g[:len(pre)] != pre {
		return "", nil, false
	}
	i := len(pre)
	start := i
	for ; i < len(g); i++ {
		if g[i] == '\\' {
			i++
			continue
		}
		if g[i] == '"' {
			break
		}
	}
	if i >= len(g) {
		return "", nil, false
	}
	lit = g[start:i]
	rest := g[i+1:]
	if len(rest) < 3 || rest[:2] != ", " || rest[len(rest)-1] != ')' {
		return "", nil, false
	}
	rest = rest[2 : len(rest)-1]
	cur := ""
	for k := 0; k < len(rest); k++ {
		if rest[k] == ',' {
			args = append(args, cur)
			cur = ""
			k++ // the blank
			continue
		}
		cur += string(rest[k])
	}
	if cur != "" {
		args = append(args, cur)
	}
	return lit, args, true
}

// holes: body positions are text except that  {a} / {b}  are holes.
// Domain: every '{' opens {a} or {b}; '}' only closes a hole.
func c11HolesOK(body string, escapes bool) bool {
	for i := 0; i < len(body); i++ {
		c := body[i]
		if escapes && c == '\\' {
			i++
			continue
		}
		if c == '}' {
			return false
		}
		if c == '{' {
			if i+2 >= len(body) || (body[i+1] != 'a' && body[i+1] != 'b') || body[i+2] != '}' {
				return false
			}
			i += 2
		}
	}
	return true
}

func denoteInterp(body string, escapes bool, a string, b string) string {
	var out []byte
	for i := 0; i < len(body); i++ {
		c := body[i]
		if escapes && c == '\\' {
			i++
			switch body[i] {
			case 'n':
				out = append(out, '\n')
			case 't':
				out = append(out, '\t')
			default:
				out = append(out, body[i])
			}
			continue
		}
		if c == '{' {
			if body[i+1] == 'a' {
				out = append(out, a...)
			} else {
				out = append(out, b...)
			}
			i += 2
			continue
		}
		out = append(out, c)
	}
	return string(out)
}

func c11Interp(quote string, escapes bool) {
	body := c11Body(c11N())
	if escapes {
		verifAssume(c11EscapesOK(body, "nt\\\"{}"))
	} else {
		for i := 0; i < len(body); i++ {
			verifAssume(body[i] != '`')
		}
	}
	verifAssume(c11HolesOK(body, escapes))
	src := "$" + quote + body + quote + "\n"
	tk := scanTokenAt(src, 0)
	_, isSI := tk.ttype.(TokenType_SINTERP)
	verifAssert(isSI && tk.begin+tk.len == len(body)+3, "the whole literal is one SINTERP token")
	g := ExprToGo(dummyStmtToGo, New_Expr_ESInterP(tk.stringVal))
	// hole values: a is a one-byte string, b a small int
	a := verifString("a", 1)
	bv := verifInt("b")
	verifAssume(0 <= bv)
	verifAssume(bv < 100)
	if len(g) > 0 && g[0] == '"' {
		// a plain Go string literal is a legitimate translation of a hole-free literal
		plain, okp := goUnquote(g)
		verifAssert(okp, "emitted literal is a valid Go literal")
		verifAssert(plain == denoteInterp(body, escapes, a, frt.Sprintf1("%d", bv)), "interpolated literal denotes its text with holes replaced")
		verifCover("end")
		return
	}
	lit, args, ok := c11ParseCall(g)
	verifAssert(ok, "emitted text is a Go string literal or a frt.SInterP call")
	format, ok2 := goUnquote(lit)
	verifAssert(ok2, "emitted interpolation format is a valid Go literal")
	var vals []any
	for _, n := range args {
		switch n {
		case "a":
			vals = append(vals, a)
		case "b":
			vals = append(vals, bv)
		default:
			verifAssert(false, "interpolation argument is not a variable in scope")
		}
	}
	got := frt.SInterP(format, vals...)
	bs := frt.Sprintf1("%d", bv)
	verifAssert(got == denoteInterp(body, escapes, a, bs), "interpolated literal denotes its text with holes replaced")
	verifCover("end")
}

func Harness_C11_InterpQuoted() { c11Interp("\"", true) }
func Harness_C11_InterpRaw()    { c11Interp("`", false) }
