package main

// C02 (kernel): the real unifyType -> updateResolver -> resolveType against an
// independent Robinson unifier.  Two types are generated from choices over
// int/string/bool/slice/tuple2/tuple3/func2/func3/Name<T>/type variable; the
// four type variables have SYMBOLIC names (_T + one symbolic byte, pairwise
// distinct), so the result is shown independent of the alphabetical order the
// code uses to orient variable-to-variable relations.  When the reference
// unifies, both sides must resolve to the same type, equal to the reference's
// most general instance up to variable renaming; symmetric in (t1,t2).

type c02T struct {
	kind int // 0 int 1 string 2 bool 3 slice 4 tuple 5 func 6 paramd 7 var
	v    int // variable index
	kids []*c02T
}

var c02VarNames []string

func c02GenT(tag string, depth int) *c02T {
	n := 8
	if depth == 0 {
		n = 4 // leaves: int string bool var
	}
	k := verifChoice(tag+".k", n)
	if depth == 0 && k == 3 {
		k = 7
	}
	switch k {
	case 0, 1, 2:
		return &c02T{kind: k}
	case 7:
		return &c02T{kind: 7, v: verifChoice(tag+".v", len(c02VarNames))}
	case 3:
		return &c02T{kind: 3, kids: []*c02T{c02GenT(tag+"e", depth-1)}}
	case 4:
		return &c02T{kind: 4, kids: []*c02T{c02GenT(tag+"a", depth-1), c02GenT(tag+"b", depth-1)}}
	case 5:
		return &c02T{kind: 5, kids: []*c02T{c02GenT(tag+"a", depth-1), c02GenT(tag+"r", depth-1)}}
	case 6:
		return &c02T{kind: 6, kids: []*c02T{c02GenT(tag+"t", depth-1)}}
	}
	return &c02T{kind: 0}
}

func (t *c02T) toF() FType {
	switch t.kind {
	case 0:
		return New_FType_FInt
	case 1:
		return New_FType_FString
	case 2:
		return New_FType_FBool
	case 3:
		return New_FType_FSlice(SliceType{ElemType: t.kids[0].toF()})
	case 4:
		var es []FType
		for _, k := range t.kids {
			es = append(es, k.toF())
		}
		return New_FType_FTuple(TupleType{ElemTypes: es})
	case 5:
		var es []FType
		for _, k := range t.kids {
			es = append(es, k.toF())
		}
		return newFFunc(es)
	case 6:
		return New_FType_FParamd(ParamdType{Name: "Box", Targs: []FType{t.kids[0].toF()}})
	}
	return New_FType_FTypeVar(TypeVar{Name: c02VarNames[t.v]})
}

// ---- reference: Robinson unification over c02T with a substitution array
type c02Subst []*c02T

func (s c02Subst) walk(t *c02T) *c02T {
	for t.kind == 7 && s[t.v] != nil {
		t = s[t.v]
	}
	return t
}

func (s c02Subst) occurs(v int, t *c02T) bool {
	t = s.walk(t)
	if t.kind == 7 {
		return t.v == v
	}
	for _, k := range t.kids {
		if s.occurs(v, k) {
			return true
		}
	}
	return false
}

func (s c02Subst) unify(a, b *c02T) bool {
	a, b = s.walk(a), s.walk(b)
	if a.kind == 7 && b.kind == 7 && a.v == b.v {
		return true
	}
	if a.kind == 7 {
		if s.occurs(a.v, b) {
			return false
		}
		s[a.v] = b
		return true
	}
	if b.kind == 7 {
		if s.occurs(b.v, a) {
			return false
		}
		s[b.v] = a
		return true
	}
	if a.kind != b.kind || len(a.kids) != len(b.kids) {
		return false
	}
	for i := range a.kids {
		if !s.unify(a.kids[i], b.kids[i]) {
			return false
		}
	}
	return true
}

// shape of the reference instance, variables numbered by first occurrence
func (s c02Subst) shape(t *c02T, seen *[]int) string {
	t = s.walk(t)
	switch t.kind {
	case 0:
		return "int"
	case 1:
		return "string"
	case 2:
		return "bool"
	case 7:
		for i, v := range *seen {
			if v == t.v {
				return "#" + itoaV(i)
			}
		}
		*seen = append(*seen, t.v)
		return "#" + itoaV(len(*seen)-1)
	}
	r := []string{"", "", "", "slice", "tuple", "func", "box"}[t.kind] + "("
	for i, k := range t.kids {
		if i > 0 {
			r += ","
		}
		r += s.shape(k, seen)
	}
	return r + ")"
}

// shape of a real FType, variables numbered by first occurrence (by name)
func c02ShapeF(t FType, seen *[]string) string {
	switch v := t.(type) {
	case FType_FInt:
		return "int"
	case FType_FString:
		return "string"
	case FType_FBool:
		return "bool"
	case FType_FTypeVar:
		for i, n := range *seen {
			if n == v.Value.Name {
				return "#" + itoaV(i)
			}
		}
		*seen = append(*seen, v.Value.Name)
		return "#" + itoaV(len(*seen)-1)
	case FType_FSlice:
		return "slice(" + c02ShapeF(v.Value.ElemType, seen) + ")"
	case FType_FTuple:
		r := "tuple("
		for i, k := range v.Value.ElemTypes {
			if i > 0 {
				r += ","
			}
			r += c02ShapeF(k, seen)
		}
		return r + ")"
	case FType_FFunc:
		r := "func("
		for i, k := range v.Value.Targets {
			if i > 0 {
				r += ","
			}
			r += c02ShapeF(k, seen)
		}
		return r + ")"
	case FType_FParamd:
		r := "box("
		for i, k := range v.Value.Targs {
			if i > 0 {
				r += ","
			}
			r += c02ShapeF(k, seen)
		}
		return r + ")"
	}
	return "?"
}

func c02Vars() {
	c02VarNames = nil
	n := 3
	for i := 0; i < n; i++ {
		b := verifByte("tv" + itoaV(i))
		verifAssume((b >= '0' && b <= '9') || (b >= 'a' && b <= 'z'))
		name := "_T" + string([]byte{b})
		for _, o := range c02VarNames {
			verifAssume(o != name)
		}
		c02VarNames = append(c02VarNames, name)
	}
}

func c02UnifyOnce(a, b *c02T) (string, string, bool) {
	var r1, r2 FType
	p, _ := tryRun(func() {
		res := newResolver()
		updateResolver(res, unifyType(a.toF(), b.toF()))
		r1 = resolveType(res, a.toF())
		r2 = resolveType(res, b.toF())
	})
	if p {
		return "", "", false
	}
	var seen []string
	s1 := c02ShapeF(r1, &seen)
	seen = nil
	s2 := c02ShapeF(r2, &seen)
	return s1, s2, true
}

func Harness_C02_Unify() {
	c02Vars()
	d1 := envInt("VERIF_UDEPTH", 1)
	a := c02GenT("a", d1)
	b := c02GenT("b", 1)
	s := make(c02Subst, len(c02VarNames))
	if !s.unify(a, b) {
		return // clash or occurs check: the property does not speak about ill-typed pairs
	}
	var seen []int
	want := s.shape(a, &seen)
	s1, s2, ok := c02UnifyOnce(a, b)
	verifAssert(ok, "unification of a unifiable pair does not fail")
	verifAssert(s1 == s2, "both sides resolve to the same type")
	verifAssert(s1 == want, "the resolved type is the most general instance (up to variable renaming)")
	t1, t2, ok2 := c02UnifyOnce(b, a)
	verifAssert(ok2 && t1 == t2 && t1 == want, "unification is symmetric in its arguments")
	verifCover("end")
}

// chains of variable-to-variable relations in every order resolve all
// variables of a class to one representative / the concrete member
func Harness_C02_UnifyChain() {
	c02Vars()
	tv := func(i int) FType { return New_FType_FTypeVar(TypeVar{Name: c02VarNames[i]}) }
	pairs := [][2]int{{0, 1}, {1, 2}, {0, 2}}
	order := verifChoice("order", 6)
	idx := [][]int{{0, 1, 2}, {0, 2, 1}, {1, 0, 2}, {1, 2, 0}, {2, 0, 1}, {2, 1, 0}}[order]
	withInt := verifChoice("concrete", 4) // which variable (if any) is also related to int
	res := newResolver()
	n := 1 + verifChoice("nrel", 3)
	// the concrete relation arrives before relation number intAt (n = after all of them):
	// a class may be bound first and united with further variables later
	intAt := verifChoice("intAt", n+1)
	class := []int{0, 1, 2}
	for k := 0; k <= n; k++ {
		if k == intAt && withInt < 3 {
			updateResolver(res, unifyType(tv(withInt), New_FType_FInt))
		}
		if k == n {
			break
		}
		p := pairs[idx[k]]
		if verifChoice("flip"+itoaV(k), 2) == 1 {
			p = [2]int{p[1], p[0]}
		}
		updateResolver(res, unifyType(tv(p[0]), tv(p[1])))
		ca, cb := class[p[0]], class[p[1]]
		for i := range class {
			if class[i] == cb {
				class[i] = ca
			}
		}
	}
	for i := 0; i < 3; i++ {
		for j := 0; j < 3; j++ {
			ri, rj := resolveType(res, tv(i)), resolveType(res, tv(j))
			if class[i] == class[j] {
				verifAssert(ri == rj, "variables of one class resolve to the same type")
			}
		}
		if withInt < 3 && class[i] == class[withInt] {
			_, isInt := resolveType(res, tv(i)).(FType_FInt)
			verifAssert(isInt, "a class with a concrete member resolves to it")
		}
	}
	verifCover("end")
}

// hoisting: leftover variables become T0, T1, ... by first occurrence in the
// parameter list, then the result
func Harness_C02_Hoist() {
	c02Vars()
	// let f p0 p1 p2 = ... with parameter/result types taken from generated types
	var ptypes []FType
	var shapes []*c02T
	deep := verifChoice("deep", 3) // which of p0, p1, result is a compound type
	for i := 0; i < 2; i++ {
		d := 0
		if deep == i {
			d = 1
		}
		t := c02GenT("p"+itoaV(i), d)
		shapes = append(shapes, t)
		ptypes = append(ptypes, t.toF())
	}
	dr := 0
	if deep == 2 {
		dr = 1
	}
	rt := c02GenT("r", dr)
	shapes = append(shapes, rt)
	params := []Var{{Name: "p0", Ftype: ptypes[0]}, {Name: "p1", Ftype: ptypes[1]}}
	ftype := newFFunc([]FType{ptypes[0], ptypes[1], rt.toF()})
	// the body's final expression is a variable of the result type, so that
	// nothing but the signature determines the types
	body := Block{Stmts: nil, FinalExpr: New_Expr_EVarRef(New_VarRef_VRVar(Var{Name: "r", Ftype: rt.toF()}))}
	lfd := LetFuncDef{Fvar: Var{Name: "f", Ftype: ftype}, Params: params, Body: body}
	var rfd RootFuncDef
	p, msg := tryRun(func() { rfd = InferLfd(newTypeVarCtx(), lfd) })
	verifAssert(!p, "InferLfd does not fail: "+msg)
	// reference numbering: first occurrence over params then result
	s := make(c02Subst, len(c02VarNames))
	var seen []int
	want := ""
	for _, t := range shapes {
		want += s.shape(t, &seen) + ";"
	}
	verifAssert(len(rfd.Tparams) == len(seen), "one type parameter per leftover variable")
	for i, n := range rfd.Tparams {
		verifAssert(n == "T"+itoaV(i), "type parameters are named T0, T1, ... in order")
	}
	got := ""
	var names []string
	for i := range rfd.Tparams {
		names = append(names, "T"+itoaV(i))
	}
	for _, q := range rfd.Lfd.Params {
		got += c02ShapeF(q.Ftype, &names) + ";"
	}
	if ft, ok := rfd.Lfd.Fvar.Ftype.(FType_FFunc); ok {
		got += c02ShapeF(ft.Value.Targets[len(ft.Value.Targets)-1], &names) + ";"
	}
	verifAssert(got == want, "type parameters are numbered by first occurrence in the parameter list, then the result")
	verifCover("end")
}
