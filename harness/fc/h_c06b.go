package main

// C06 (B): parser lemma with symbolic indentation.  A template in line-start
// normal form is expanded by choices (optional line breaks at marked sites,
// blank lines / comments); the canonical text is compiled by the real
// pipeline, then compiled again with the column of every token replaced by
//   canonical offset in line - canonical indentation + y[line]
// where y[line] is a symbolic integer constrained only by the indentation
// tree of the text (top level 0, children strictly right of the parent,
// siblings equal).  The emitted Go must be identical on every feasible path.

var (
	c06LineStart []int
	c06Indent    []int
	c06Y         []int
)

func c06LineOf(begin int) int {
	l := 0
	for i := 1; i < len(c06LineStart); i++ {
		if c06LineStart[i] <= begin {
			l = i
		}
	}
	return l
}

func c06Col(begin int) int {
	if len(c06LineStart) == 0 {
		return begin
	}
	l := c06LineOf(begin)
	return begin - c06LineStart[l] - c06Indent[l] + c06Y[l]
}

// replacements for the column computation of the tokenizer (active only
// between verifOverrides(true) / verifOverrides(false))
func verifOverride_tkzNext(tkz Tokenizer) Tokenizer {
	if _, eof := tkz.current.ttype.(TokenType_EOF); eof {
		return tkz
	}
	nt := nextToken(tkz.buf, tkz.current)
	return Tokenizer{buf: tkz.buf, current: nt, col: c06Col(nt.begin)}
}

func verifOverride_newTkz(buf string) Tokenizer {
	itk := newToken(New_TokenType_ILLEGAL, 0, 0)
	ftk := nextToken(buf, itk)
	return Tokenizer{buf: buf, current: ftk, col: c06Col(ftk.begin)}
}

// expand: §k§ is a break site: one blank, or newline + k blanks
func c06Expand(tpl string, tag string) string {
	out := ""
	site := 0
	for i := 0; i < len(tpl); i++ {
		if tpl[i] == '@' {
			j := i + 1
			k := 0
			for tpl[j] != '@' {
				k = k*10 + int(tpl[j]-'0')
				j++
			}
			if verifChoice(tag+"break"+itoaV(site), 2) == 1 {
				out += "\n"
				for n := 0; n < k; n++ {
					out += " "
				}
			} else {
				out += " "
			}
			site++
			i = j
			continue
		}
		out += string(tpl[i])
	}
	return out
}

func c06Decorate(src string, deco int) string {
	if deco == 0 {
		return src
	}
	out := ""
	start := 0
	for i := 0; i <= len(src); i++ {
		if i == len(src) || src[i] == '\n' {
			line := src[start:i]
			start = i + 1
			switch deco {
			case 1: // blank line (with trailing blanks) after every line
				out += line + "\n   \n"
			case 2: // trailing line comment
				if len(line) > 0 {
					out += line + "  // c\n"
				} else {
					out += "\n"
				}
			case 3: // trailing block comment (a blank before it, nothing after it)
				if len(line) > 0 {
					out += line + " /* c */\n"
				} else {
					out += "\n"
				}
			case 4: // trailing block comment followed by blanks
				if len(line) > 0 {
					out += line + "  /* c */ \n"
				} else {
					out += "\n"
				}
			case 5: // an indented own-line block comment after every line
				k := 0
				for k < len(line) && line[k] == ' ' {
					k++
				}
				out += line + "\n"
				if len(line) > 0 {
					out += line[:k] + "    /* own line */\n"
				}
			}
		}
	}
	return out
}

// c06Setup computes the line table of src and the symbolic indentations
// with the constraints of the indentation tree.
func c06Setup(src string) {
	c06LineStart, c06Indent, c06Y = nil, nil, nil
	start := 0
	for i := 0; i <= len(src); i++ {
		if i == len(src) || src[i] == '\n' {
			k := start
			for k < i && src[k] == ' ' {
				k++
			}
			c06LineStart = append(c06LineStart, start)
			if k == i || (k+1 < i && src[k] == '/' && (src[k+1] == '/' || src[k+1] == '*')) {
				c06Indent = append(c06Indent, -1) // blank (or comment-only) line: no token starts here
			} else {
				c06Indent = append(c06Indent, k-start)
			}
			start = i + 1
		}
	}
	n := len(c06LineStart)
	c06Y = make([]int, n)
	parent := make([]int, n)
	for i := 0; i < n; i++ {
		parent[i] = -1
		if c06Indent[i] < 0 {
			continue
		}
		y := verifInt("y" + itoaV(i))
		verifAssume(0 <= y)
		verifAssume(y < 1000000)
		c06Y[i] = y
		for j := i - 1; j >= 0; j-- {
			if c06Indent[j] >= 0 && c06Indent[j] < c06Indent[i] {
				parent[i] = j
				break
			}
		}
		if parent[i] < 0 {
			verifAssume(y == 0)
			continue
		}
		verifAssume(y > c06Y[parent[i]])
		for k := parent[i] + 1; k < i; k++ {
			if c06Indent[k] < 0 || parent[k] != parent[i] {
				continue
			}
			switch {
			case c06Indent[k] == c06Indent[i]:
				verifAssume(c06Y[k] == y)
			case c06Indent[k] < c06Indent[i]:
				verifAssume(c06Y[k] < y)
			default:
				verifAssume(c06Y[k] > y)
			}
		}
	}
}

// natively (replay) the indentation is applied to the text itself
func c06Reindent(src string) string {
	out := ""
	for l := range c06LineStart {
		end := len(src)
		if l+1 < len(c06LineStart) {
			end = c06LineStart[l+1] - 1
		}
		line := src[c06LineStart[l]:end]
		if c06Indent[l] >= 0 {
			pad := ""
			for n := 0; n < c06Y[l]; n++ {
				pad += " "
			}
			line = pad + line[c06Indent[l]:]
		}
		if l > 0 {
			out += "\n"
		}
		out += line
	}
	return out
}

const c06Prelude = "package main\n\npackage_info slice =\n  let Map<T, U> : (T->U)->[]T->[]U\n  let Filter<T> : (T->bool)->[]T->[]T\n\n"

var c06Templates = []string{
	// let / inner let / pipeline / if-else
	c06Prelude + "let inc (a:int) =@2@a + 1\n\nlet f (c:bool) (xs:[]int) =\n  let k =@4@inc 2\n  let ys =\n    xs@4@|> slice.Map inc@4@|> slice.Filter (fun x -> x > k)\n  if c then\n    ys\n  else\n    xs\n",
	// union and string match, arms with bodies on the same or the next line
	"package main\n\ntype U =\n  | A of int\n  | B\n  | C of string\n\nlet g (u:U) =\n  match u with\n  | A i ->@4@i + 1\n  | B ->@4@0\n  | C s ->@4@2\n\nlet h (s:string) =\n  match s with\n  | \"x\" ->@4@1\n  | _ ->@4@0\n\nlet hv (s:string) =\n  match s with\n  | \"y\" ->@4@\"is y\"\n  | v ->@4@v\n",
	// records, inner function, match arm holding an if
	"package main\n\ntype R = {X: int; Y: string}\n\ntype V =\n  | P of R\n  | Q\n\nlet mk (a:int) =\n  let inner (b:int) =@4@a + b\n  let r = {X=inner 1; Y=\"s\"}\n  r\n\nlet k (v:V) =\n  match v with\n  | P r ->\n    if r.X > 0 then\n      r.X\n    else\n      0\n  | Q ->@4@1\n",
	// inner function, pipeline continuation lines, lambda; nested match with multi-statement arms; record field on a second line
	c06Prelude + "type U =\n  | A of int\n  | B\n\ntype R = {X: int;\n          Y: string}\n\nlet f (xs:[]int) =\n  let g (x:int) =@4@x + 1\n  xs\n  |> slice.Map g\n  |> slice.Filter (fun x -> x > 2)\n\nlet h (u:U) (v:U) =\n  match u with\n  | A i ->\n    let k =@6@i + 1\n    match v with\n    | A j ->@6@k + j\n    | _ ->@6@k\n  | _ ->@4@0\n\nlet mk (a:int) =\n  let r = {X=a; Y=\"s\"}\n  r.X\n",
	// if / elif / else as value, nested blocks
	"package main\n\nlet sel (a:int) =\n  if a > 2 then\n    let b =@6@a * 2\n    b\n  elif a > 1 then\n    2\n  else\n    let c = 3\n    c + a\n\nlet pairs (a:int) =\n  let (p, q) =@4@(a, a + 1)\n  let (r, _) =@4@(p, q)\n  p + q + r\n",
	// a default-less inner match as the last expression of an outer arm, the outer default arm (needed / not needed) right after it
	"package main\n\ntype W =\n  | P\n  | Q\n\ntype U =\n  | A of int\n  | B\n  | C\n\nlet h1 (u:U) (w:W) =\n  match u with\n  | A r ->\n    match w with\n    | P -> r * 3\n    | Q ->@6@r * 6\n  | _ -> 0\n\nlet h2 (u:U) (w:W) =\n  match u with\n  | B -> 1\n  | C -> 2\n  | A r ->\n    match w with\n    | P -> r\n    | Q -> 6\n  | _ -> 0\n\nlet h3 (s:string) (w:W) =\n  match s with\n  | \"x\" ->\n    match w with\n    | P -> 1\n    | Q -> 2\n  | _ -> 0\n",
	// bodies that start in the middle of a line (one-line let, match arm, else) with the pipeline broken before |>:
	// the operator line continues the expression wherever it is indented
	"package main\n\ntype AB =\n  | A\n  | B\n\nlet inc (x:int) =\n  x + 1\n\nlet viaInc (n:int) = n@2@|> inc\n\nlet pick (ab:AB) (n:int) =\n  match ab with\n  | A -> n\n  | B -> n@4@|> inc@4@|> inc\n\nlet choose (c:bool) (n:int) =\n  if c then\n    n\n  else n@2@|> inc\n\nlet pick2 (ab:AB) (n:int) =\n  match ab with\n  | B -> n@6@|> inc\n  | A -> n\n",
	// lambdas whose bodies start on the line after '->': several statements, a nested block, as a let value and as an argument
	c06Prelude + "let visit (xs:[]int) (k:int) =\n  let g = fun (x:int) ->\n            let y = x + k\n            y * 2\n  let h = fun (x:int) ->\n       if x > k then\n         x\n       else\n         k\n  xs\n  |> slice.Map (fun x ->\n      let z = g x\n      h z)\n  |> slice.Filter (fun x -> x > 0)\n",
}

func c06RunTemplate(t int) {
	src := c06Expand(c06Templates[t], "")
	src = c06Decorate(src, verifChoice("deco", 6))
	// every layout of the property's grammar over the same text (set up first:
	// the assumptions are cheap to re-execute, the compiles are not)
	c06Setup(src)
	want, p, msg := compileSrc(src)
	verifAssert(!p, "the canonical layout is accepted: "+msg)
	var got string
	var p2 bool
	var msg2 string
	if verifIsSymbolic(c06Y) {
		verifOverrides(true)
		got, p2, msg2 = compileSrc(src)
		verifOverrides(false)
	} else {
		got, p2, msg2 = compileSrc(c06Reindent(src))
	}
	verifAssert(!p2, "a re-indented layout with the same block structure is accepted: "+msg2)
	verifAssert(got == want, "the emitted Go does not depend on the amounts of indentation")
	verifCover("end")
}

func Harness_C06B_Let()                   { c06RunTemplate(0) }
func Harness_C06B_Match()                 { c06RunTemplate(1) }
func Harness_C06B_Record()                { c06RunTemplate(2) }
func Harness_C06B_Nested()                { c06RunTemplate(3) }
func Harness_C06B_If()                    { c06RunTemplate(4) }
func Harness_C06B_InnerMatchThenDefault() { c06RunTemplate(5) }
func Harness_C06B_MidLineBodyPipe()       { c06RunTemplate(6) }
func Harness_C06B_LambdaBodyNextLine()    { c06RunTemplate(7) }

// break-site and decoration choices alone (concrete columns): same output as
// the most compact layout
func Harness_C06B_Breaks() {
	t := verifChoice("template", len(c06Templates))
	src := c06Expand(c06Templates[t], "")
	deco := verifChoice("deco", 6)
	compact := ""
	tpl := c06Templates[t]
	for i := 0; i < len(tpl); i++ {
		if tpl[i] == '@' {
			j := i + 1
			for tpl[j] != '@' {
				j++
			}
			compact += " "
			i = j
			continue
		}
		compact += string(tpl[i])
	}
	want, p, msg := compileSrc(compact)
	verifAssert(!p, "compact layout accepted: "+msg)
	got, p2, msg2 := compileSrc(c06Decorate(src, deco))
	verifAssert(!p2, "layout with line breaks / blank lines / comments accepted: "+msg2)
	verifAssert(got == want, "line breaks at break sites, blank lines and comments do not change the emitted Go")
	verifCover("end")
}

// converse: a line indented less than its block ends that block
func Harness_C06B_Dedent() {
	pre := "package main\n\npackage_info ext =\n  let G: int->()\n\nlet f (c:bool) =\n  if c then\n    ext.G 1\n"
	inBlock := pre + "    ext.G 2\n  ext.G 3\n"
	outBlock := pre + "  ext.G 2\n  ext.G 3\n"
	a, pa, _ := compileSrc(inBlock)
	b, pb, _ := compileSrc(outBlock)
	verifAssert(!pa && !pb, "both layouts are accepted")
	verifAssert(a != b, "dedenting a line out of its block changes the structure")
	// in: G(2) inside the IfOnly closure; out: after it
	ia, ib := indexOf(a, "ext.G(2)", 0), indexOf(b, "ext.G(2)", 0)
	ca, cb := indexOf(a, "}))", 0), indexOf(b, "}))", 0)
	verifAssert(ia >= 0 && ca >= 0 && ia < ca, "a line at the block's column belongs to the block")
	verifAssert(ib >= 0 && cb >= 0 && ib > cb, "a line indented less than its block ends that block")
	verifCover("end")
}
