package main

// C02 (annotation erasure): removing a parameter annotation that unification
// over the body already determines never changes the emitted code.  Each
// function is compiled with every subset (choices) of its redundant
// annotations erased; the emitted Go of the function must equal the fully
// annotated variant's.

const c02Prelude = "package main\n\nimport frt\nimport slice\n\npackage_info frt =\n  let Sprintf1<T>: string->T->string\n  let Fst<T, U> : T*U->T\n  let Snd<T, U> : T*U->U\n\npackage_info slice =\n  let Take<T> : int->[]T->[]T\n  let Map<T, U> : (T->U)->[]T->[]U\n  let Length<T>: []T -> int\n\ntype Pt = {X: int; Y: string}\n\ntype Sh =\n  | Ci of int\n  | Re of string\n\nlet add10 (a:int) =\n  a + 10\n\nlet same (a:string) (b:string) =\n  a = b\n\n"

type c02Param struct {
	name, typ string
	erasable  bool
}

type c02Fn struct {
	name   string
	params []c02Param
	body   string
}

var c02Fns = []c02Fn{
	{"e1", []c02Param{{"a", "int", true}, {"b", "int", true}}, "  a + b + 1\n"},
	{"e2", []c02Param{{"p", "Pt", false}, {"a", "int", true}}, "  add10 a + p.X\n"},
	{"e3", []c02Param{{"xs", "[]int", true}, {"k", "int", true}}, "  slice.Take k xs |> slice.Map add10\n"},
	{"e4", []c02Param{{"a", "int", true}, {"s", "string", true}}, "  {X=a; Y=s}\n"},
	{"e5", []c02Param{{"f", "int->string", false}, {"x", "int", true}}, "  frt.Sprintf1 \"%s\" (f (x + 1))\n"},
	{"e6", []c02Param{{"t", "int*string", true}}, "  let (a, b) = t\n  (a + 1, same b \"k\")\n"},
	{"e7", []c02Param{{"a", "int", true}, {"s", "string", true}}, "  (Ci a, Re s)\n"},
	{"e8", []c02Param{{"f", "int->int", true}, {"x", "int", true}}, "  add10 (f (add10 x))\n"},
	{"e9", []c02Param{{"a", "int", true}, {"b", "int", true}, {"c", "bool", true}}, "  if c then\n    a + 1\n  else\n    b\n"},
}

func c02Source(f c02Fn, erase []bool) string {
	s := c02Prelude + "let " + f.name
	for i, p := range f.params {
		if erase[i] {
			s += " " + p.name
		} else {
			s += " (" + p.name + ":" + p.typ + ")"
		}
	}
	return s + " =\n" + f.body
}

func c02FuncText(out, name string) (string, bool) {
	at := indexOf(out, "func "+name, 0)
	if at < 0 {
		return "", false
	}
	end := indexOf(out, "\n}\n", at)
	if end < 0 {
		return "", false
	}
	return out[at : end+3], true
}

func Harness_C02_Erasure() {
	f := c02Fns[verifChoice("fn", len(c02Fns))]
	none := make([]bool, len(f.params))
	full, p, msg := compileSrc(c02Source(f, none))
	verifAssert(!p, "fully annotated function is accepted: "+msg)
	want, ok := c02FuncText(full, f.name)
	verifAssert(ok, "function found in the output")
	erase := make([]bool, len(f.params))
	any := false
	for i, q := range f.params {
		if q.erasable && verifChoice("erase"+itoaV(i), 2) == 1 {
			erase[i] = true
			any = true
		}
	}
	if !any {
		return
	}
	out, p2, msg2 := compileSrc(c02Source(f, erase))
	verifAssert(!p2, "function with redundant annotations erased is accepted: "+msg2)
	got, _ := c02FuncText(out, f.name)
	verifAssert(got == want, "erasing an annotation that the body determines does not change the emitted code")
	verifCover("end")
}
