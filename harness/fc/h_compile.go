package main

// Shared helpers for whole-compiler harnesses.

// compileSrc runs the real pipeline initParse -> ParseAll -> RootStmtsToGo.
func compileSrc(src string) (out string, panicked bool, msg string) {
	panicked, msg = tryRun(func() {
		ps := initParse(src)
		res := ParseAll(ps)
		out = RootStmtsToGo(res.E1)
	})
	return
}

// returnLine extracts the text after "return " on the first return line of
// the function called name in emitted Go, blanks removed.
func returnExprOf(out string, name string) (string, bool) {
	key := "func " + name
	at := indexOf(out, key, 0)
	if at < 0 {
		return "", false
	}
	r := indexOf(out, "return ", at)
	if r < 0 {
		return "", false
	}
	r += len("return ")
	end := r
	for end < len(out) && out[end] != '\n' {
		end++
	}
	return stripBlanks(out[r:end]), true
}

func indexOf(s, sub string, from int) int {
	for i := from; i+len(sub) <= len(s); i++ {
		if s[i:i+len(sub)] == sub {
			return i
		}
	}
	return -1
}

func stripBlanks(s string) string {
	var b []byte
	for i := 0; i < len(s); i++ {
		if s[i] != ' ' && s[i] != '\t' {
			b = append(b, s[i])
		}
	}
	return string(b)
}
