package main

// C08: binary operators group by the published table, left-associative.

// published table (from loosest): |> ; && || < > <= >= ; = <> ; + - ; * /
type c08Op struct {
	spell string
	prec  int
	goOp  string
	call  bool // emitted as goOp(L, R)
}

var c08Table = []c08Op{
	{"+ ", 4, "+", false}, {"- ", 4, "-", false}, {"* ", 5, "*", false}, {"/ ", 5, "/", false},
	{"&&", 2, "&&", false}, {"||", 2, "||", false}, {"< ", 2, "<", false}, {"> ", 2, ">", false}, {"<=", 2, "<=", false}, {">=", 2, ">=", false},
	{"= ", 3, "frt.OpEqual", true}, {"<>", 3, "frt.OpNotEqual", true},
}

// c08SymOp: two symbolic bytes constrained to one of the 12 spellings.
func c08SymOp(name string) string {
	op := verifString(name, 2)
	ok := false
	for _, t := range c08Table {
		if op == t.spell {
			ok = true
		}
	}
	verifAssume(ok)
	return op
}

func c08Lookup(op string) c08Op {
	for _, t := range c08Table {
		if op == t.spell {
			return t
		}
	}
	panic("c08Lookup")
}

func c08Print(l string, o c08Op, r string) string {
	if o.call {
		return o.goOp + "(" + l + "," + r + ")"
	}
	return "(" + l + o.goOp + r + ")"
}

// c08Fold: reference grouping of  x0 op0 x1 op1 x2 …  by precedence climbing
// over the published table, equal ranks to the left.
func c08Fold(operands []string, ops []c08Op) string {
	pos := 0
	var parse func(minPrec int) string
	parse = func(minPrec int) string {
		lhs := operands[pos]
		for pos < len(ops) && ops[pos].prec >= minPrec {
			o := ops[pos]
			pos++
			rhs := parse(o.prec + 1)
			lhs = c08Print(lhs, o, rhs)
		}
		return lhs
	}
	return parse(1)
}

var c08Names = []string{"a", "b", "c", "d", "e", "f"}

// operand forms: 0 atom, 1 application "g x", 2 "not x", 3 parenthesised atom
func c08Operand(i int, form int) (src string, want string) {
	n := c08Names[i]
	switch form {
	case 1:
		return "g " + n, "g(" + n + ")"
	case 2:
		return "not " + n, "frt.OpNot(" + n + ")"
	case 3:
		return "(" + n + ")", n
	}
	return n, n
}

func c08Run(k int, forms bool, breaks bool) {
	src := "package main\n\nlet f g a b c d e =\n  "
	var operands []string
	var ops []c08Op
	for i := 0; i <= k; i++ {
		form := 0
		if forms {
			form = verifChoice("form"+itoaV(i), 4)
		}
		s, w := c08Operand(i, form)
		src += s
		operands = append(operands, w)
		if i < k {
			op := c08SymOp("op" + itoaV(i))
			if breaks && verifChoice("eol"+itoaV(i), 2) == 1 {
				src += "\n    " + op + " "
			} else {
				src += " " + op + " "
			}
			ops = append(ops, c08Lookup(op))
		}
	}
	src += "\n"
	out, p, msg := compileSrc(src)
	if p {
		verifNote("rejected: " + msg)
		verifCover("rejected")
		verifAssert(false, "operator chain is accepted: "+msg)
		return
	}
	got, ok := returnExprOf(out, "f")
	verifAssert(ok, "emitted function has a return expression")
	verifAssert(c08Same(got, c08Fold(operands, ops)), "operator chain groups by the published table, left-associative")
	verifCover("end")
}

func Harness_C08_Chain1() { c08Run(1, true, true) }
func Harness_C08_Chain2() { c08Run(2, envInt("VERIF_FORMS2", 1) == 1, false) }
func Harness_C08_Chain3() { c08Run(3, false, false) }
func Harness_C08_Chain4() {
	if envInt("VERIF_CHAIN4", 0) == 0 {
		return
	}
	c08Run(4, false, false)
}
func Harness_C08_Chain2Breaks() { c08Run(2, false, true) }

// parenthesised sub-chains are preserved: a op (b op c) op d
func Harness_C08_Parens() {
	o0, o1, o2 := c08SymOp("op0"), c08SymOp("op1"), c08SymOp("op2")
	src := "package main\n\nlet f a b c d =\n  a " + o0 + " (b " + o1 + " c) " + o2 + " d\n"
	out, p, msg := compileSrc(src)
	verifAssert(!p, "parenthesised chain is accepted: "+msg)
	got, _ := returnExprOf(out, "f")
	inner := c08Print("b", c08Lookup(o1), "c")
	want := c08Fold([]string{"a", inner, "d"}, []c08Op{c08Lookup(o0), c08Lookup(o2)})
	verifAssert(c08Same(got, want), "explicit parentheses are preserved")
	verifCover("end")
}

// the table itself, as initialised by the real package init
func Harness_C08_Table() {
	verifAssert(len(binOpMap) == 13, "13 binary operators")
	chk := func(tk TokenType, prec int, goName string) {
		r := lookupBinOp(tk)
		verifAssert(r.E1 && r.E0.Precedence == prec && r.E0.GoFuncName == goName, "published rank of "+goName)
		// comparisons and logical operators (ranks 2 and 3) yield bool
		verifAssert(r.E0.IsBoolOp == (prec == 2 || prec == 3), "result kind of "+goName)
	}
	chk(New_TokenType_PIPE, 1, "frt.Pipe")
	chk(New_TokenType_AMPAMP, 2, "&&")
	chk(New_TokenType_BARBAR, 2, "||")
	chk(New_TokenType_LT, 2, "<")
	chk(New_TokenType_GT, 2, ">")
	chk(New_TokenType_LE, 2, "<=")
	chk(New_TokenType_GE, 2, ">=")
	chk(New_TokenType_EQ, 3, "frt.OpEqual")
	chk(New_TokenType_BRACKET, 3, "frt.OpNotEqual")
	chk(New_TokenType_PLUS, 4, "+")
	chk(New_TokenType_MINUS, 4, "-")
	chk(New_TokenType_ASTER, 5, "*")
	chk(New_TokenType_SLASH, 5, "/")
	verifCover("end")
}

// pipe is loosest and nests left
func Harness_C08_Pipe() {
	op := c08SymOp("op")
	o := c08Lookup(op)
	src := "package main\n\nlet f (a:int) (b:int) (g:int->int) (h:int->int) =\n  a " + op + " b |> g |> h\n"
	out, p, msg := compileSrc(src)
	if p {
		verifNote("rejected: " + msg)
		verifCover("rejected")
		return
	}
	got, _ := returnExprOf(out, "f")
	inner := c08Print("a", o, "b")
	verifAssert(c08Same(got, "frt.Pipe(frt.Pipe("+inner+",g),h)"), "|> is the loosest operator and nests to the left")
	verifCover("end")
}

// table-independent level: the ranks of four operators become symbolic
// integers in 1..6 (written into the real binOpMap), the chain is fixed; the
// tree built by the real parser must equal the reference fold over the same
// symbolic ranks.  Covers every table, the published one included.
func Harness_C08_SymbolicRanks() {
	tks := []TokenType{New_TokenType_PLUS, New_TokenType_ASTER, New_TokenType_AMPAMP, New_TokenType_MINUS}
	gos := []string{"+", "*", "&&", "-"}
	spells := []string{"+", "*", "&&", "-"}
	var tab []c08Op
	for i, tk := range tks {
		p := verifInt("rank" + itoaV(i))
		verifAssume(1 <= p)
		verifAssume(p <= 6)
		binOpMap[tk] = BinOpInfo{p, gos[i], false}
		tab = append(tab, c08Op{spells[i], p, gos[i], false})
	}
	k := envInt("VERIF_RANKCHAIN", 5)
	src := "package main\n\nlet fn a b c d e f =\n  a"
	var ops []c08Op
	seq := []int{0, 1, 2, 3, 1, 0, 2}
	for i := 0; i < k; i++ {
		o := tab[seq[i]]
		src += " " + o.spell + " " + c08Names[(i+1)%6]
		ops = append(ops, o)
	}
	src += "\n"
	var operands []string
	for i := 0; i <= k; i++ {
		operands = append(operands, c08Names[i%6])
	}
	out, p, msg := compileSrc(src)
	verifAssert(!p, "chain is accepted: "+msg)
	got, _ := returnExprOf(out, "fn")
	verifAssert(got == c08Fold(operands, ops), "grouping follows precedence climbing for every rank table")
	verifCover("end")
}

// c08Canon re-reads an emitted Go expression with GO's precedence rules and
// prints it fully parenthesised, so that the comparison below is about the
// grouping the Go compiler will see, not about which parentheses the emitter
// happens to write (dropping a redundant pair is not a violation, dropping a
// needed one is).  ok=false: not an expression of the emitted subset.
type c08Parser struct {
	s  string
	at int
	ok bool
}

func c08GoRank(op string) int {
	switch op {
	case "||":
		return 1
	case "&&":
		return 2
	case "==", "!=", "<", "<=", ">", ">=":
		return 3
	case "+", "-":
		return 4
	case "*", "/":
		return 5
	}
	return 0
}

func (p *c08Parser) peekOp() string {
	if p.at+2 <= len(p.s) {
		if two := p.s[p.at : p.at+2]; c08GoRank(two) > 0 {
			return two
		}
	}
	if p.at+1 <= len(p.s) {
		if one := p.s[p.at : p.at+1]; c08GoRank(one) > 0 {
			return one
		}
	}
	return ""
}

func c08IsIdent(c byte) bool {
	return c == '_' || c == '.' || (c >= 'a' && c <= 'z') || (c >= 'A' && c <= 'Z') || (c >= '0' && c <= '9')
}

func (p *c08Parser) primary() string {
	if p.at >= len(p.s) {
		p.ok = false
		return ""
	}
	if p.s[p.at] == '!' {
		p.at++
		return "!" + p.primary()
	}
	if p.s[p.at] == '(' {
		p.at++
		e := p.expr(1)
		if p.at >= len(p.s) || p.s[p.at] != ')' {
			p.ok = false
			return ""
		}
		p.at++
		return e
	}
	start := p.at
	for p.at < len(p.s) && c08IsIdent(p.s[p.at]) {
		p.at++
	}
	if p.at == start {
		p.ok = false
		return ""
	}
	name := p.s[start:p.at]
	if p.at < len(p.s) && p.s[p.at] == '(' {
		p.at++
		out := name + "("
		for n := 0; p.ok; n++ {
			if p.at < len(p.s) && p.s[p.at] == ')' {
				break
			}
			if n > 0 {
				if p.at >= len(p.s) || p.s[p.at] != ',' {
					p.ok = false
					return ""
				}
				p.at++
				out += ","
			}
			out += p.expr(1)
		}
		if !p.ok || p.at >= len(p.s) {
			p.ok = false
			return ""
		}
		p.at++
		return out + ")"
	}
	return name
}

func (p *c08Parser) expr(minRank int) string {
	lhs := p.primary()
	for p.ok {
		op := p.peekOp()
		r := c08GoRank(op)
		if r == 0 || r < minRank {
			break
		}
		p.at += len(op)
		rhs := p.expr(r + 1)
		lhs = "(" + lhs + op + rhs + ")"
	}
	return lhs
}

func c08Canon(s string) (string, bool) {
	p := &c08Parser{s: s, ok: true}
	e := p.expr(1)
	if !p.ok || p.at != len(s) {
		return s, false
	}
	return e, true
}

// c08Same: the same grouping under Go's rules (the same text when either side
// is outside the subset c08Canon reads)
func c08Same(got, want string) bool {
	g, ok1 := c08Canon(got)
	w, ok2 := c08Canon(want)
	if !ok1 || !ok2 {
		return got == want
	}
	return g == w
}
