package main

// C16 group 3: parser / inference termination on damaged programs.  A valid
// template is damaged by choices (truncation at every offset, deletion /
// duplication / swap of a token, indentation of a line set to a symbolic
// integer, a body built from identifiers in scope) and run through the real
// main().  Every path must terminate inside the budget with exit status 0 and
// output, or non-zero with a diagnostic and no output.  A path that exhausts
// the budget is replayed against the real binary under a timeout.

var c16Templates = []string{
	"package main\n\ntype R = {X: int; Y: string}\n\nlet mk (a:int) =\n  let r = {X=a; Y=\"s\"}\n  r.X + 1\n",
	"package main\n\ntype U =\n  | A of int\n  | B\n\nlet f (u:U) =\n  match u with\n  | A i -> i\n  | B -> 0\n",
	"package main\n\nlet g (xs:[]int) (k:int) =\n  if k > 0 then\n    k * 2\n  else\n    0 - k\n",
	"package main\n\nlet h a b =\n  let c = (a, b)\n  $\"v {a}\" // tail\n",
}

func c16Tokens(src string) []Token {
	var ts []Token
	tk := scanTokenAt(src, 0)
	for {
		if _, eof := tk.ttype.(TokenType_EOF); eof {
			return ts
		}
		ts = append(ts, tk)
		if tk.begin+tk.len >= len(src) {
			return ts
		}
		tk = scanTokenAt(src, tk.begin+tk.len)
	}
}

func c16RunDamaged(src string) {
	verifSetFile("t.fo", src)
	verifSetArgs([]string{"fc", "t.fo"})
	code := verifRunMain(main)
	out := verifStdout() + verifStderr()
	_, written := verifFile("gen_t.go")
	if code == 0 {
		verifAssert(written, "exit status 0 only with the output file written")
		verifCover("accepted")
	} else {
		verifAssert(!written, "no output file for a rejected program")
		verifAssert(indexOf(out, "t.fo:", 0) >= 0 || indexOf(out, "panic", 0) >= 0, "a diagnostic is printed for a rejected program")
		verifCover("rejected")
	}
}

func Harness_C16_Truncate() {
	src := c16Templates[verifChoice("template", len(c16Templates))]
	k := verifChoice("cut", len(src))
	c16RunDamaged(src[:k])
}

func Harness_C16_TokenDamage() {
	src := c16Templates[verifChoice("template", len(c16Templates))]
	ts := c16Tokens(src)
	i := verifChoice("token", len(ts))
	t := ts[i]
	var out string
	switch verifChoice("op", 3) {
	case 0: // delete
		out = src[:t.begin] + src[t.begin+t.len:]
	case 1: // duplicate
		out = src[:t.begin+t.len] + " " + src[t.begin:]
	case 2: // swap with the next token
		if i+1 >= len(ts) {
			return
		}
		n := ts[i+1]
		out = src[:t.begin] + src[n.begin:n.begin+n.len] + src[t.begin+t.len:n.begin] + src[t.begin:t.begin+t.len] + src[n.begin+n.len:]
	}
	c16RunDamaged(out)
}

// the indentation of one line becomes an arbitrary amount 0..40 (symbolic,
// the offside comparisons fork on it)
func Harness_C16_Indent() {
	src := c16Templates[verifChoice("template", len(c16Templates))]
	var lines []string
	start := 0
	for i := 0; i <= len(src); i++ {
		if i == len(src) || src[i] == '\n' {
			lines = append(lines, src[start:i])
			start = i + 1
		}
	}
	j := verifChoice("line", len(lines))
	l := lines[j]
	k := 0
	for k < len(l) && l[k] == ' ' {
		k++
	}
	if k == len(l) {
		return
	}
	ind := verifChoice("indent", 9)
	pad := ""
	for n := 0; n < ind; n++ {
		pad += " "
	}
	lines[j] = pad + l[k:]
	out := ""
	for i, x := range lines {
		if i > 0 {
			out += "\n"
		}
		out += x
	}
	c16RunDamaged(out)
}

// bodies built from names in scope: ill-typed and self-applied definitions
func Harness_C16_Bodies() {
	names := []string{"f", "x", "1", "g", "y", "\"s\""}
	names = names[:envInt("VERIF_BODYNAMES", 4)]
	a := names[verifChoice("a", len(names))]
	b := names[verifChoice("b", len(names))]
	c := names[verifChoice("c", len(names))]
	form := verifChoice("form", 4)
	src := "package main\n\nlet g (n:int) =\n  n + 1\n\nlet f x y =\n  "
	switch form {
	case 0:
		src += a + " " + b + " " + c
	case 1:
		src += a + " (" + b + " " + c + ")"
	case 2:
		src += a + " + " + b + " " + c
	case 3:
		src += "(" + a + ", " + b + ") |> " + c
	}
	src += "\n"
	c16RunDamaged(src)
}

// arbitrary bytes inside a program: K symbolic bytes (any value) at one of
// several places of a valid program; the run must terminate with output or a
// diagnostic whatever the bytes are
func Harness_C16_SymbolicBytes() {
	k := envInt("VERIF_SYMBYTES", 2)
	s := verifString("bytes", k)
	var src string
	switch verifChoice("place", 4) {
	case 0: // a function body
		src = "package main\n\nlet f (a:int) =\n  " + s + "\n"
	case 1: // after an operator
		src = "package main\n\nlet f (a:int) =\n  a + " + s + "\n"
	case 2: // inside a type definition
		src = "package main\n\ntype R = {X: " + s + "}\n"
	case 3: // at top level, before a definition
		src = "package main\n" + s + "\nlet f (a:int) =\n  a\n"
	}
	c16RunDamaged(src)
}

// types that refer to themselves (or to each other in an 'and' group) through
// every type constructor — slice, function argument / result, slice of
// functions, function returning a slice — as a record field or a union
// payload, then used as a parameter type: fc must terminate with its output
// or a diagnostic, whatever the shape of the cycle
func Harness_C16_CyclicTypes() {
	shapes := []string{"[]N", "()->N", "N->string", "int->N", "[](()->N)", "()->[]N", "(int->N)->int", "[][]N"}
	shape := shapes[verifChoice("shape", len(shapes))]
	carrier := verifChoice("carrier", 2) // 0 record field, 1 union payload
	mutual := verifChoice("mutual", 2)   // 1: the cycle goes through a second type of an 'and' group
	use := verifChoice("use", 3)
	sub := func(s, name string) string {
		out := ""
		for i := 0; i < len(s); i++ {
			if s[i] == 'N' {
				out += name
			} else {
				out += string(s[i])
			}
		}
		return out
	}
	src := "package main\n\n"
	inner := "Node"
	if mutual == 1 {
		inner = "Other"
	}
	if carrier == 0 {
		src += "type Node = {Val: int; Link: " + sub(shape, inner) + "}\n"
	} else {
		src += "type Node =\n  | Leaf\n  | Link of " + sub(shape, inner) + "\n"
	}
	if mutual == 1 {
		src += "and Other = {Back: []Node; Tag: string}\n"
	}
	src += "\n"
	switch use {
	case 0: // the definition alone
	case 1: // as a parameter type
		if carrier == 0 {
			src += "let value (n:Node) =\n  n.Val\n"
		} else {
			src += "let isLeaf (n:Node) =\n  match n with\n  | Leaf -> 1\n  | Link _ -> 0\n"
		}
	default: // inside other types of a signature
		src += "let count (ns:[]Node) (f:Node->int) =\n  3\n"
	}
	c16RunDamaged(src)
	verifCover("end")
}

// expressions that unify a variable with a structure containing itself (an
// infinite type): fc has no occurs check; it must still end with a
// diagnostic, however the cycle is nested and however many relations a
// round of unification produces
func Harness_C16_CyclicUnification() {
	bodies := []string{
		"[x; (x, x)]",
		"[x; (x, x); ((x, x), (x, x))]",
		"[x; [x]]",
		"[x; [x]; [[x]]]",
		"[(x, x); x; ((x, x), (x, x)); x]",
		"if c then x else (x, x)",
		"if c then [x] else [[x]; [(x, x)]]",
	}
	b := bodies[verifChoice("body", len(bodies))]
	src := "package main\n\nlet f c x =\n  " + b + "\n"
	if verifChoice("second", 2) == 1 {
		src += "\nlet g (a:int) =\n  a + 1\n"
	}
	c16RunDamaged(src)
	verifCover("end")
}
