package VERIFPKG

// Virtual environment API: only meaningful inside symgo (whole-program
// harnesses are replayed against the real binary, not natively in-process).

func verifSetArgs(args []string)              { panic("verifSetArgs: symgo only") }
func verifSetFile(path, content string)       { panic("verifSetFile: symgo only") }
func verifFailRead(path string)               { panic("verifFailRead: symgo only") }
func verifFailWrite(path string)              { panic("verifFailWrite: symgo only") }
func verifFile(path string) (string, bool)    { panic("verifFile: symgo only") }
func verifNumWrites() int                     { panic("verifNumWrites: symgo only") }
func verifWrite(k int) (string, string, bool) { panic("verifWrite: symgo only") }
func verifStdout() string                     { panic("verifStdout: symgo only") }
func verifRunMain(f func()) int               { panic("verifRunMain: symgo only") }
