package VERIFPKG

// Virtual environment API.  Inside symgo: a per-path virtual file system,
// os.Args, stdout capture and os.Exit capture around the real main().
// Natively (replay): the same calls build a real directory, run the real
// binary named by VERIF_BIN in it and observe files / output / exit status.

import (
	"bytes"
	"context"
	"os"
	"os/exec"
	"path/filepath"
	"sort"
	"time"
)

var (
	verifRoot   string
	verifArgv   []string
	verifInputs = map[string]string{}
	verifOutBuf string
	verifErrBuf string
	verifWrote  []string
)

func verifRootDir() string {
	if verifRoot == "" {
		d, err := os.MkdirTemp("", "verif-native-")
		if err != nil {
			panic(err)
		}
		verifRoot = d
	}
	return verifRoot
}

func verifCleanup() {
	if verifRoot != "" {
		os.RemoveAll(verifRoot)
	}
}

func verifSetArgs(args []string) { verifArgv = append([]string(nil), args...) }

func verifSetFile(path, content string) {
	full := filepath.Join(verifRootDir(), path)
	os.MkdirAll(filepath.Dir(full), 0755)
	if err := os.WriteFile(full, []byte(content), 0644); err != nil {
		panic(verifAssumeFailed{}) // name not representable on a real file system
	}
	verifInputs[filepath.Clean(path)] = content
}

// a directory in the way makes both ReadFile and WriteFile fail
func verifFailRead(path string) {
	full := filepath.Join(verifRootDir(), path)
	os.Remove(full)
	os.MkdirAll(full, 0755)
}

func verifFailWrite(path string) {
	full := filepath.Join(verifRootDir(), path)
	os.MkdirAll(full, 0755)
}

func verifFile(path string) (string, bool) {
	b, err := os.ReadFile(filepath.Join(verifRootDir(), path))
	if err != nil {
		return "", false
	}
	return string(b), true
}

func verifNumWrites() int { return len(verifWrote) }

func verifWrite(k int) (string, string, bool) {
	c, _ := verifFile(verifWrote[k])
	return verifWrote[k], c, true
}

func verifStdout() string { return verifOutBuf }
func verifStderr() string { return verifErrBuf }

// verifRunMain runs the real binary (VERIF_BIN) with the arguments set by
// verifSetArgs in the directory built by verifSetFile.
func verifRunMain(f func()) int {
	bin := os.Getenv("VERIF_BIN")
	if bin == "" {
		panic("VERIF_BIN not set")
	}
	root := verifRootDir()
	ctx, cancel := context.WithTimeout(context.Background(), 20*time.Second)
	defer cancel()
	var args []string
	if len(verifArgv) > 1 {
		args = verifArgv[1:]
	}
	cmd := exec.CommandContext(ctx, bin, args...)
	cmd.Dir = root
	var so, se bytes.Buffer
	cmd.Stdout, cmd.Stderr = &so, &se
	err := cmd.Run()
	verifOutBuf, verifErrBuf = so.String(), se.String()
	if ctx.Err() != nil {
		panic("VERIF-HANG: the binary did not terminate within 20s")
	}
	code := 0
	if err != nil {
		if ee, ok := err.(*exec.ExitError); ok {
			code = ee.ExitCode()
		} else {
			panic(err)
		}
	}
	if bytes.Contains(se.Bytes(), []byte("fatal error:")) {
		panic("VERIF-FATAL: " + verifErrBuf[:min(len(verifErrBuf), 200)])
	}
	// files written = regular files that are new or differ from the inputs
	verifWrote = nil
	filepath.Walk(root, func(p string, info os.FileInfo, err error) error {
		if err != nil || info.IsDir() {
			return nil
		}
		rel, _ := filepath.Rel(root, p)
		b, _ := os.ReadFile(p)
		if in, ok := verifInputs[rel]; !ok || in != string(b) {
			verifWrote = append(verifWrote, rel)
		}
		return nil
	})
	sort.Strings(verifWrote)
	return code
}
