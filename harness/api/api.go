package VERIFPKG

// Harness API.  Inside symgo these functions are intercepted; compiled
// natively they replay one concrete assignment read from the JSON file named
// by VERIF_REPLAY ({"assignment": {"name": value, …}}), so that every solver
// counterexample can be re-run against the real build.

import (
	"os"
	"reflect"
	"strconv"
	"strings"
)

var verifReplayMap map[string]uint64
var verifFailed []string

func verifLoadReplay() {
	verifReplayMap = map[string]uint64{}
	path := os.Getenv("VERIF_REPLAY")
	if path == "" {
		return
	}
	b, err := os.ReadFile(path)
	if err != nil {
		panic("VERIF_REPLAY: " + err.Error())
	}
	s := string(b)
	i := strings.Index(s, "\"assignment\"")
	if i < 0 {
		return
	}
	s = s[i:]
	s = s[strings.Index(s, "{")+1:]
	if j := strings.Index(s, "}"); j >= 0 {
		s = s[:j]
	}
	for _, kv := range strings.Split(s, ",") {
		k := strings.LastIndex(kv, ":")
		if k < 0 {
			continue
		}
		name := strings.TrimSpace(kv[:k])
		name = strings.Trim(name, "\"")
		v, err := strconv.ParseUint(strings.TrimSpace(kv[k+1:]), 10, 64)
		if err == nil {
			verifReplayMap[name] = v
		}
	}
}

func verifVal(name string) uint64 {
	if verifReplayMap == nil {
		verifLoadReplay()
	}
	return verifReplayMap[name]
}

func verifInt(name string) int       { return int(verifVal(name)) }
func verifInt64(name string) int64   { return int64(verifVal(name)) }
func verifInt32(name string) int32   { return int32(verifVal(name)) }
func verifInt16(name string) int16   { return int16(verifVal(name)) }
func verifInt8(name string) int8     { return int8(verifVal(name)) }
func verifUint(name string) uint     { return uint(verifVal(name)) }
func verifUint64(name string) uint64 { return verifVal(name) }
func verifUint32(name string) uint32 { return uint32(verifVal(name)) }
func verifUint16(name string) uint16 { return uint16(verifVal(name)) }
func verifUint8(name string) uint8   { return uint8(verifVal(name)) }
func verifByte(name string) byte     { return byte(verifVal(name)) }
func verifBool(name string) bool     { return verifVal(name) != 0 }

func verifString(name string, n int) string {
	b := make([]byte, n)
	for i := range b {
		b[i] = byte(verifVal(name + "[" + strconv.Itoa(i) + "]"))
	}
	return string(b)
}

func verifChoice(name string, n int) int { return int(verifVal(name)) % n }

type verifAssumeFailed struct{}

func verifAssume(c bool) {
	if !c {
		panic(verifAssumeFailed{})
	}
}

func verifAssert(c bool, msg string) {
	if !c {
		verifFailed = append(verifFailed, msg)
		panic("VERIF-ASSERT-FAILED: " + msg)
	}
}

func verifCover(name string)           {}
func verifNote(s string)               {}
func verifOutput(key string, s string) {}
func verifIsSymbolic(x any) bool       { return false }
func verifEnd()                        { panic(verifAssumeFailed{}) }

func verifConcretize(x int, lo, hi int) int {
	verifAssume(lo <= x && x <= hi)
	return x
}

func verifDeepEqual(a, b any) bool { return reflect.DeepEqual(a, b) }

func verifHostFile(path string) string {
	b, err := os.ReadFile(path)
	if err != nil {
		panic(err)
	}
	return string(b)
}

func verifEnv(name string) string { return os.Getenv(name) }

// verifOverrides(true) activates the harness' verifOverride_<name> functions
// inside symgo; natively it is a no-op (harnesses use concrete inputs there).
func verifOverrides(on bool) {}

// verifSetMapOrder(p) forces the order of the following map iterations inside
// symgo (permutation p of the insertion order; -1 = default).  Natively a no-op:
// Go's own random order applies.
func verifSetMapOrder(p int) {}

// verifMapOrders: how many enumeration orders a site lemma tries: the 6
// permutations inside symgo, many repetitions under Go's random order natively.
func verifMapOrders() int { return 400 }
