package VERIFPKG

// Small helpers shared by all harness packages (no imports on purpose).

func itoaV(i int) string {
	if i == 0 {
		return "0"
	}
	neg := i < 0
	if neg {
		i = -i
	}
	var b []byte
	for i > 0 {
		b = append([]byte{byte('0' + i%10)}, b...)
		i /= 10
	}
	if neg {
		return "-" + string(b)
	}
	return string(b)
}

func envInt(name string, def int) int {
	s := verifEnv(name)
	if s == "" {
		return def
	}
	n := 0
	for i := 0; i < len(s); i++ {
		n = n*10 + int(s[i]-'0')
	}
	return n
}

// tryRun runs f; reports a panic (other than a failed assumption) and its text.
func tryRun(f func()) (panicked bool, msg string) {
	defer func() {
		if r := recover(); r != nil {
			if _, ok := r.(verifAssumeFailed); ok {
				panic(r)
			}
			panicked = true
			if s, ok := r.(string); ok {
				msg = s
			} else if e, ok := r.(error); ok {
				msg = e.Error()
			} else {
				msg = "non-string panic"
			}
		}
	}()
	f()
	return false, ""
}

// symBuf: a string of l symbolic bytes, l a choice in 0..n.
func symBuf(name string, n int) string {
	l := verifChoice(name+".len", n+1)
	return verifString(name, l)
}

// verifIntSlice: n symbolic ints name[0..n-1].
func verifIntSlice(name string, n int) []int {
	s := make([]int, n)
	for i := range s {
		s[i] = verifInt(name + "[" + itoaV(i) + "]")
	}
	return s
}
