package strings

// C14 (strings): each wrapper equals a direct specification with the
// pipeline-friendly argument order, for all strings of <= N symbolic bytes.

func c14N() int { return envInt("VERIF_N", 3) }

func specHasPrefix(p, s string) bool {
	if len(p) > len(s) {
		return false
	}
	for i := 0; i < len(p); i++ {
		if s[i] != p[i] {
			return false
		}
	}
	return true
}

func specHasSuffix(suf, s string) bool {
	if len(suf) > len(s) {
		return false
	}
	off := len(s) - len(suf)
	for i := 0; i < len(suf); i++ {
		if s[off+i] != suf[i] {
			return false
		}
	}
	return true
}

// specSplit: Go's strings.SplitN contract for a non-empty separator.
func specSplitN(sep, s string, n int) []string {
	if n == 0 {
		return nil
	}
	var out []string
	start := 0
	for i := 0; i+len(sep) <= len(s); {
		if n > 0 && len(out) == n-1 {
			break
		}
		if specHasPrefix(sep, s[i:]) {
			out = append(out, s[start:i])
			i += len(sep)
			start = i
		} else {
			i++
		}
	}
	return append(out, s[start:])
}

func sameStrs(a, b []string) bool {
	if len(a) != len(b) {
		return false
	}
	for i := range a {
		if a[i] != b[i] {
			return false
		}
	}
	return true
}

func Harness_C14_PrefixSuffix() {
	a := symBuf("a", 2)
	s := symBuf("s", c14N())
	verifAssert(HasPrefix(a, s) == specHasPrefix(a, s), "HasPrefix prefix s")
	verifAssert(HasSuffix(a, s) == specHasSuffix(a, s), "HasSuffix suffix s")
	t := TrimSuffix(a, s)
	if specHasSuffix(a, s) {
		verifAssert(t == s[:len(s)-len(a)], "TrimSuffix removes the suffix")
	} else {
		verifAssert(t == s, "TrimSuffix leaves a string without the suffix alone")
	}
	verifCover("end")
}

func Harness_C14_Split() {
	sep := symBuf("sep", 2)
	verifAssume(len(sep) > 0)
	s := symBuf("s", c14N())
	verifAssert(sameStrs(Split(sep, s), specSplitN(sep, s, -1)), "Split sep s")
	n := verifChoice("n", 4)
	verifAssert(sameStrs(SplitN(n, sep, s), specSplitN(sep, s, n)), "SplitN count sep s")
	verifCover("end")
}

func Harness_C14_ConcatEtc() {
	sep := symBuf("sep", 1)
	a, b, c := symBuf("a", 1), symBuf("b", 1), symBuf("c", 1)
	verifAssert(Concat(sep, []string{}) == "", "Concat of nothing")
	verifAssert(Concat(sep, []string{a}) == a, "Concat of one")
	verifAssert(Concat(sep, []string{a, b, c}) == a+sep+b+sep+c, "Concat sep xs joins in order")
	verifAssert(AppendTail(a, b) == b+a, "AppendTail tail s = s + tail")
	verifAssert(AppendHead(a, b) == a+b, "AppendHead head s = head + s")
	verifAssert(EncloseWith(a, b, c) == a+c+b, "EncloseWith beg end center")
	verifAssert(Length(a+b) == len(a)+len(b), "Length")
	verifAssert(IsEmpty(a) == (len(a) == 0) && IsNotEmpty(a) == (len(a) != 0), "IsEmpty / IsNotEmpty")
	verifCover("end")
}
