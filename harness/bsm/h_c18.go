package main

// C18: the real main() of build_sample_md over the virtual file system.
// The list file is N symbolic bytes (newline, blank, '.', '%', lower-case
// letters; every non-empty line starts with a letter, i.e. a file name);
// every listed file has symbolic content of <= 2 bytes and a symbolic
// "readable" flag.  Oracle: an independent reference renderer.

func c18N() int { return envInt("VERIF_N", 5) }

type c18Entry struct {
	name, title string
	content     string
	readable    bool
}

func c18TrimFo(name string) string {
	if len(name) >= 3 && name[len(name)-3:] == ".fo" {
		return name[:len(name)-3]
	}
	return name
}

func Harness_C18_Render() {
	list := symBuf("list", c18N())
	// parse the list independently of the tool: lines, name = up to first blank
	var entries []c18Entry
	start := 0
	for i := 0; i <= len(list); i++ {
		if i < len(list) {
			c := list[i]
			verifAssume(c == '\n' || c == ' ' || c == '.' || c == '%' || (c >= 'a' && c <= 'z'))
			if c != '\n' {
				continue
			}
		}
		line := list[start:i]
		start = i + 1
		if len(line) == 0 {
			continue
		}
		verifAssume(line[0] >= 'a')
		verifAssume(line[0] <= 'z')
		sp := -1
		for k := 0; k < len(line); k++ {
			if line[k] == ' ' {
				sp = k
				break
			}
		}
		e := c18Entry{name: line, title: line}
		if sp >= 0 {
			e.name, e.title = line[:sp], line[sp+1:]
		}
		entries = append(entries, e)
	}
	// the listed files
	for k := range entries {
		e := &entries[k]
		e.content = symBuf("file"+itoaV(k), 2)
		e.readable = verifBool("readable" + itoaV(k))
		// a later entry naming the same file sees the same file
		for j := 0; j < k; j++ {
			if entries[j].name == e.name {
				e.content, e.readable = entries[j].content, entries[j].readable
			}
		}
		if e.readable {
			verifSetFile("d/"+e.name, e.content)
		} else if verifChoice("unreadable_kind"+itoaV(k), 2) == 1 {
			// the entry exists but cannot be read (e.g. it is a directory), as opposed to a missing one
			dup := false
			for j := 0; j < k; j++ {
				if entries[j].name == e.name {
					dup = true
				}
			}
			if !dup {
				verifFailRead("d/" + e.name)
			}
		}
	}
	verifSetFile("d/list.txt", list)
	// a README.md from an earlier run (longer than anything this run writes) may already be there
	if verifChoice("old_readme", 2) == 1 {
		old := ""
		for k := 0; k < 40; k++ {
			old += "### old section\n\n"
		}
		verifSetFile("d/README.md", old)
	}
	verifSetArgs([]string{"build_sample_md", "d/list.txt"})
	code := verifRunMain(main)

	allReadable := true
	for _, e := range entries {
		if !e.readable {
			allReadable = false
		}
	}
	if !allReadable {
		verifAssert(code != 0, "an unreadable listed file makes the tool fail")
		verifAssert(verifNumWrites() == 0, "no README is written when a listed file cannot be read")
		verifCover("unreadable")
		return
	}
	want := "## Folang Sample \n\n\n"
	for k, e := range entries {
		if k > 0 {
			want += "\n"
		}
		gen := "gen_" + c18TrimFo(e.name) + ".go"
		want += "### " + e.title + "\n\n```\n" + e.content + "\n```\n\ngenerated go: [" + gen + "](./" + gen + ")\n\n"
	}
	verifAssert(code == 0, "the tool succeeds when every listed file is readable")
	verifAssert(verifNumWrites() == 1, "exactly one file is written")
	got, ok := verifFile("d/README.md")
	verifAssert(ok, "README.md is written next to the list file")
	verifAssert(got == want, "README.md = header + one section per non-empty line, in order, content verbatim")
	verifCover("rendered")
}

func Harness_C18_Usage() {
	n := verifChoice("nargs", 3)
	args := []string{"build_sample_md"}
	if n != 1 {
		for k := 0; k < n; k++ {
			args = append(args, "d/list.txt")
		}
	}
	verifSetFile("d/list.txt", "a\n")
	verifSetFile("d/a", "x")
	verifSetArgs(args)
	verifRunMain(main)
	verifAssert(verifNumWrites() == 0, "nothing is written without exactly one argument")
	verifCover("end")
}

func Harness_C18_MissingList() {
	verifSetArgs([]string{"build_sample_md", "d/list.txt"})
	code := verifRunMain(main)
	verifAssert(code != 0 && verifNumWrites() == 0, "a missing list file fails without output")
	verifCover("end")
}
