package frt

// C10 (unit level): frt.OpEqual / OpNotEqual on the Go representations of
// first-order Folang values: total (no panic), equal to structural equality
// (reference written per type below), <> its negation.  Slice operands come
// from different producers: nil (append-built results such as an empty
// Filter), empty non-nil (slice.New / literal), sub-slices.

type c10RecU struct { // record with upper-case field names
	X int
	S string
}

type c10RecL struct { // record with lower-case field names
	x int
	s string
}

type c10Union interface{ c10Union_Union() }
type c10Union_A struct{ Value int }
type c10Union_B struct{ Value string }
type c10Union_C struct{}
type c10Union_D struct{ Value []int } // a case with a slice payload

func (c10Union_A) c10Union_Union() {}
func (c10Union_B) c10Union_Union() {}
func (c10Union_C) c10Union_Union() {}
func (c10Union_D) c10Union_Union() {}

// slice-free containers that hold a union (whose case may hold a slice)
type c10RecU2 struct {
	Name string
	U    c10Union
}

type c10RecNest struct {
	Name  string
	items []int
	U     c10Union
}

func c10Check[T any](a, b T, want bool, what string) {
	var eq, ne bool
	p, msg := tryRun(func() { eq = OpEqual(a, b); ne = OpNotEqual(a, b) })
	verifAssert(!p, what+": = does not panic: "+msg)
	verifAssert(eq == want, what+": = is structural equality")
	verifAssert(ne == !want, what+": <> is the negation of =")
	var eq2 bool
	p, _ = tryRun(func() { eq2 = OpEqual(b, a) })
	verifAssert(!p && eq2 == eq, what+": = is symmetric")
	var self bool
	p, _ = tryRun(func() { self = OpEqual(a, a) })
	verifAssert(!p && self, what+": = is reflexive")
}

func Harness_C10_Scalars() {
	a, b := verifInt("a"), verifInt("b")
	c10Check(a, b, a == b, "int")
	s, t := symBuf("s", 2), symBuf("t", 2)
	c10Check(s, t, s == t, "string")
	p, q := verifBool("p"), verifBool("q")
	c10Check(p, q, p == q, "bool")
	verifCover("end")
}

func Harness_C10_Tuples() {
	a, b := verifInt("a"), verifInt("b")
	s, t := verifString("s", 1), verifString("t", 1)
	c10Check(NewTuple2(a, s), NewTuple2(b, t), a == b && s == t, "tuple2")
	p, q := verifBool("p"), verifBool("q")
	c10Check(NewTuple3(a, s, p), NewTuple3(b, t, q), a == b && s == t && p == q, "tuple3")
	c10Check(NewTuple2(NewTuple2(a, s), p), NewTuple2(NewTuple2(b, t), q), a == b && s == t && p == q, "nested tuple")
	verifCover("end")
}

func Harness_C10_RecordUpper() {
	a, b := verifInt("a"), verifInt("b")
	s, t := verifString("s", 1), verifString("t", 1)
	c10Check(c10RecU{a, s}, c10RecU{b, t}, a == b && s == t, "record with upper-case fields")
	verifCover("end")
}

func Harness_C10_RecordLower() {
	a, b := verifInt("a"), verifInt("b")
	s, t := verifString("s", 1), verifString("t", 1)
	c10Check(c10RecL{a, s}, c10RecL{b, t}, a == b && s == t, "record with lower-case fields")
	verifCover("end")
}

func c10MkUnion(tag string) (c10Union, int, int, string) {
	k := verifChoice(tag+".case", 3)
	switch k {
	case 0:
		v := verifInt(tag + ".i")
		return c10Union_A{v}, 0, v, ""
	case 1:
		v := verifString(tag+".s", 1)
		return c10Union_B{v}, 1, 0, v
	}
	return c10Union_C{}, 2, 0, ""
}

func Harness_C10_Unions() {
	u, ku, iu, su := c10MkUnion("u")
	v, kv, iv, sv := c10MkUnion("v")
	c10Check(u, v, ku == kv && iu == iv && su == sv, "union")
	verifCover("end")
}

// c10Slice: a slice of <= 2 symbolic ints from one of the producers.
func c10Slice(tag string) []int {
	n := verifChoice(tag+".len", 3)
	elems := verifIntSlice(tag, n)
	switch verifChoice(tag+".producer", 4) {
	case 0: // append-built (nil when empty): Filter/Map/Take/Skip results
		var r []int
		for _, e := range elems {
			r = append(r, e)
		}
		return r
	case 1: // literal / slice.New (non-nil when empty)
		r := []int{}
		return append(r, elems...)
	case 2: // sub-slice of a longer one: Tail
		full := append([]int{0}, elems...)
		return full[1:]
	}
	// sub-slice with spare capacity: PopLast
	full := append(append([]int{}, elems...), 7)
	return full[:len(elems)]
}

func c10SameInts(a, b []int) bool {
	if len(a) != len(b) {
		return false
	}
	for i := range a {
		if a[i] != b[i] {
			return false
		}
	}
	return true
}

func Harness_C10_Slices() {
	x, y := c10Slice("x"), c10Slice("y")
	c10Check(x, y, c10SameInts(x, y), "slice")
	verifCover("end")
}

func Harness_C10_Nested() {
	x, y := c10Slice("x"), c10Slice("y")
	a, b := verifInt("a"), verifInt("b")
	c10Check(NewTuple2(a, x), NewTuple2(b, y), a == b && c10SameInts(x, y), "tuple holding a slice")
	c10Check([][]int{x}, [][]int{y}, c10SameInts(x, y), "slice of slices")
	u, ku, iu, su := c10MkUnion("u")
	v, kv, iv, sv := c10MkUnion("v")
	c10Check(c10RecNest{"n", x, u}, c10RecNest{"n", y, v}, c10SameInts(x, y) && ku == kv && iu == iv && su == sv, "record holding a slice and a union")
	c10Check([]c10RecU{{a, "k"}}, []c10RecU{{b, "k"}}, a == b, "slice of records")
	verifCover("end")
}

// transitivity on slices/records follows from agreement with structural
// equality, checked explicitly once for ints wrapped in unions.
func Harness_C10_Transitive() {
	u, _, _, _ := c10MkUnion("u")
	v, _, _, _ := c10MkUnion("v")
	w, _, _, _ := c10MkUnion("w")
	var ab, bc, ac bool
	p, _ := tryRun(func() { ab, bc, ac = OpEqual(u, v), OpEqual(v, w), OpEqual(u, w) })
	verifAssert(!p, "union: = does not panic")
	if ab && bc {
		verifAssert(ac, "= is transitive")
	}
	verifCover("end")
}

// a union case with a slice payload inside slice-free records / tuples: the
// container is statically comparable in Go, its contents are not
func Harness_C10_UnionWithSlicePayload() {
	x, y := c10Slice("x"), c10Slice("y")
	var u, v c10Union = c10Union_D{x}, c10Union_D{y}
	c10Check(u, v, c10SameInts(x, y), "union case with a slice payload")
	a, b := verifInt("a"), verifInt("b")
	c10Check(NewTuple2(a, u), NewTuple2(b, v), a == b && c10SameInts(x, y), "tuple holding a union with a slice payload")
	c10Check(c10RecU2{"n", u}, c10RecU2{"n", v}, c10SameInts(x, y), "record holding a union with a slice payload")
	w, kw, _, _ := c10MkUnion("w")
	_ = kw
	c10Check(c10RecU2{"n", u}, c10RecU2{"n", w}, false, "record holding different union cases")
	verifCover("end")
}

// windows of ONE backing array (what Tail / PopLast / Take-free sub-slicing
// hand to a Folang program): same start with different lengths, different
// starts with the same length, and a window against itself.
func Harness_C10_AliasedSlices() {
	n := verifChoice("n", 4)
	arr := verifIntSlice("arr", n)
	lo1 := verifChoice("lo1", n+1)
	hi1 := lo1 + verifChoice("len1", n+1-lo1)
	lo2 := verifChoice("lo2", n+1)
	hi2 := lo2 + verifChoice("len2", n+1-lo2)
	x, y := arr[lo1:hi1], arr[lo2:hi2]
	c10Check(x, y, c10SameInts(x, y), "two windows of one array")
	c10Check(NewTuple2(1, x), NewTuple2(1, y), c10SameInts(x, y), "tuples holding two windows of one array")
	var u, v c10Union = c10Union_D{x}, c10Union_D{y}
	c10Check(u, v, c10SameInts(x, y), "union cases holding two windows of one array")
	verifCover("end")
}

// slices of strings (the element type the compiler itself compares most):
// nil / non-nil empty / one or two one-byte strings, bare and nested
func c10StrSlice(tag string) []string {
	n := verifChoice(tag+".len", 3)
	var elems []string
	for k := 0; k < n; k++ {
		elems = append(elems, symBuf(tag+itoaV(k), 1))
	}
	if verifChoice(tag+".producer", 2) == 0 {
		var r []string
		for _, e := range elems {
			r = append(r, e)
		}
		return r
	}
	return append([]string{}, elems...)
}

func c10SameStrs(a, b []string) bool {
	if len(a) != len(b) {
		return false
	}
	for i := range a {
		if a[i] != b[i] {
			return false
		}
	}
	return true
}

type c10RecS struct {
	Name  string
	Items []string
}

func Harness_C10_StringSlices() {
	x, y := c10StrSlice("x"), c10StrSlice("y")
	c10Check(x, y, c10SameStrs(x, y), "slice of strings")
	c10Check(NewTuple2(1, x), NewTuple2(1, y), c10SameStrs(x, y), "tuple holding a slice of strings")
	c10Check(c10RecS{"n", x}, c10RecS{"n", y}, c10SameStrs(x, y), "record holding a slice of strings")
	c10Check([][]string{x}, [][]string{y}, c10SameStrs(x, y), "slice of slices of strings")
	verifCover("end")
}
