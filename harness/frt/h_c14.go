package frt

// C14 (frt): Pipe, conditionals over thunks, tuples, formatting helpers.

func Harness_C14_Pipe() {
	x, c := verifInt("x"), verifInt("c")
	f := func(v int) int { return v*3 - c }
	verifAssert(Pipe(x, f) == f(x), "Pipe x f = f x")
	called := 0
	PipeUnit(x, func(v int) { called += 1; verifAssert(v == x, "PipeUnit passes x") })
	verifAssert(called == 1, "PipeUnit calls f exactly once")
	verifCover("end")
}

func Harness_C14_Conditionals() {
	c := verifBool("c")
	a, b := verifInt("a"), verifInt("b")
	var trace []int
	r := IfElse(c, func() int { trace = append(trace, 1); return a }, func() int { trace = append(trace, 2); return b })
	if c {
		verifAssert(r == a && len(trace) == 1 && trace[0] == 1, "IfElse runs exactly the then-branch")
	} else {
		verifAssert(r == b && len(trace) == 1 && trace[0] == 2, "IfElse runs exactly the else-branch")
	}
	trace = nil
	IfElseUnit(c, func() { trace = append(trace, 1) }, func() { trace = append(trace, 2) })
	verifAssert(len(trace) == 1 && (trace[0] == 1) == c, "IfElseUnit runs exactly one branch")
	trace = nil
	IfOnly(c, func() { trace = append(trace, 1) })
	verifAssert((len(trace) == 1) == c && len(trace) <= 1, "IfOnly runs the body iff the condition holds")
	verifAssert(OpNot(c) == !c && OpAnd(c, true) == c && !OpAnd(c, false), "OpNot / OpAnd")
	verifCover("end")
}

func Harness_C14_Tuples() {
	a, b, c := verifInt("a"), verifString("b", 1), verifBool("c")
	t2 := NewTuple2(a, b)
	verifAssert(Fst(t2) == a && Snd(t2) == b, "Fst/Snd invert NewTuple2")
	x, y := Destr2(t2)
	verifAssert(x == a && y == b, "Destr2 inverts NewTuple2")
	x, y = Destr(t2)
	verifAssert(x == a && y == b, "Destr inverts NewTuple2")
	t3 := NewTuple3(a, b, c)
	p, q, r := Destr3(t3)
	verifAssert(p == a && q == b && r == c, "Destr3 inverts NewTuple3")
	verifAssert(t2.E0 == a && t2.E1 == b && t3.E2 == c, "documented field names")
	verifCover("end")
}

// every basic kind through SInterP/toS and Sprintf1: no failure, integers in decimal
func Harness_C14_Format() {
	n := verifInt64("n")
	verifAssume(-1000 < n && n < 1000)
	want := Sprintf1("%d", n)
	var v any
	signed := true
	switch verifChoice("kind", 13) {
	case 0:
		v = int(n)
	case 1:
		verifAssume(-128 <= n && n < 128)
		v = int8(n)
	case 2:
		v = int16(n)
	case 3:
		v = int32(n)
	case 4:
		v = n
	case 5:
		verifAssume(n >= 0)
		v, signed = uint(n), false
	case 6:
		verifAssume(0 <= n && n < 256)
		v, signed = uint8(n), false
	case 7:
		verifAssume(n >= 0)
		v, signed = uint16(n), false
	case 8:
		verifAssume(n >= 0)
		v, signed = uint32(n), false
	case 9:
		verifAssume(n >= 0)
		v, signed = uint64(n), false
	case 10:
		verifAssume(n >= 0)
		v, signed = uintptr(n), false
	case 11:
		s := verifString("s", 2)
		p, _ := tryRun(func() { verifAssert(SInterP("%s", s) == s, "SInterP renders a string as itself") })
		verifAssert(!p, "SInterP does not fail on a string")
		verifAssert(Sprintf1("<%s>", s) == "<"+s+">", "Sprintf1 %s")
		verifCover("end")
		return
	case 12:
		b := verifBool("b")
		var got string
		p, _ := tryRun(func() { got = SInterP("%s", b) })
		verifAssert(!p, "SInterP does not fail on a bool")
		if b {
			verifAssert(got == "true", "SInterP renders true")
		} else {
			verifAssert(got == "false", "SInterP renders false")
		}
		verifCover("end")
		return
	}
	_ = signed
	var got string
	p, msg := tryRun(func() { got = SInterP("%s", v) })
	verifAssert(!p, "SInterP does not fail on an integer of any kind: "+msg)
	verifAssert(got == want, "SInterP renders integers in decimal")
	verifAssert(Sprintf2("%v,%d", v, v) == want+","+want, "Sprintf2 renders integers in decimal")
	verifCover("end")
}

// unsigned values above MaxInt64 keep their value
func Harness_C14_FormatBigUnsigned() {
	n := verifUint64("big")
	verifAssume(n >= 1<<63)
	want := Sprintf1("%d", n)
	var got string
	p, msg := tryRun(func() { got = SInterP("%s", n) })
	verifAssert(!p, "SInterP does not fail on a large unsigned integer: "+msg)
	verifAssert(got == want, "SInterP renders unsigned integers above MaxInt64 in decimal")
	verifAssert(len(got) > 0 && got[0] != '-', "an unsigned integer is never rendered negative")
	var u uint = uint(n)
	p, _ = tryRun(func() { got = SInterP("%s", u) })
	verifAssert(!p && got == want, "SInterP renders uint above MaxInt64 in decimal")
	verifCover("end")
}

func Harness_C14_FormatFloat() {
	var got string
	p, _ := tryRun(func() { got = SInterP("%s", 1.5) })
	verifAssert(!p && got == "1.500000", "SInterP renders a float with %f")
	p, _ = tryRun(func() { got = SInterP("%s", float32(0.25)) })
	verifAssert(!p && got == "0.250000", "SInterP renders a float32 with %f")
	type rec struct {
		A int
		B string
	}
	p, _ = tryRun(func() { got = SInterP("%s", rec{1, "x"}) })
	verifAssert(!p && got == "{1 x}", "SInterP renders other values with %v")
	p, _ = tryRun(func() { got = SInterP("%s", []int{1, 2}) })
	verifAssert(!p && got == "[1 2]", "SInterP renders slices with %v")
	verifCover("end")
}

func Harness_C14_SInterPNoValues() {
	x := symBuf("x", 1)
	verifAssume(x != "%")
	verifAssert(SInterP("100%% done") == "100% done" && SInterP("") == "" && SInterP(x+"%%"+x) == x+"%"+x, "SInterP without values still formats: %% is one %")
	verifAssert(SInterP("%s%%", x) == x+"%", "SInterP with a value")
	verifCover("end")
}

func Harness_C14_Misc() {
	p, msg := tryRun(func() { Assert(false, "boom") })
	verifAssert(p && msg == "boom", "Assert false panics with the message")
	p, _ = tryRun(func() { Assert(true, "boom") })
	verifAssert(!p, "Assert true is silent")
	p, msg = tryRun(func() { Panicf1("x=%d", 7) })
	verifAssert(p && msg == "x=7", "Panicf1 formats")
	verifAssert(Empty[int]() == 0 && Empty[string]() == "", "Empty is the zero value")
	verifCover("end")
}
