package VERIFPKG

// Std functions a changed /repo may plausibly start to use: each must give
// the same result inside symgo (stand-ins, lazily initialised package tables,
// real std source) and natively.

import (
	"bytes"
	"errors"
	"fmt"
	"maps"
	"os"
	"path/filepath"
	"slices"
	"sort"
	"strconv"
	"strings"
	"unicode"
	"unicode/utf8"
)

func Harness_Self_Std_slices() {
	a, b := verifInt("a"), verifInt("b")
	s := []int{a, b, 3}
	verifAssert(slices.Contains(s, 3), "contains")
	verifAssert(slices.Index(s, 3) >= 0, "index")
	t := slices.Clone(s)
	slices.Reverse(t)
	verifAssert(t[0] == 3, "reverse")
	u := slices.Insert(s, 1, 9)
	verifAssert(u[1] == 9, "insert")
	u = slices.Delete(u, 1, 2)
	verifAssert(len(u) == 3, "delete")
	verifAssert(slices.Equal(s, s), "equal")
	slices.Sort(t)
	verifAssert(slices.IsSorted(t), "sort")
	verifAssert(slices.Max(s) >= 3, "max")
	verifCover("end")
}
func Harness_Self_Std_sort() {
	a, b := verifInt("a"), verifInt("b")
	s := []int{a, b, 3}
	sort.Ints(s)
	verifAssert(sort.IntsAreSorted(s), "ints")
	st := []string{"b", "a"}
	sort.Strings(st)
	verifAssert(st[0] == "a", "strings")
	i := sort.SearchInts(s, 3)
	verifAssert(i < 3, "search")
	sort.Sort(sort.Reverse(sort.IntSlice(s)))
	verifAssert(s[0] >= s[1], "reverse sort")
	verifCover("end")
}
func Harness_Self_Std_strings1() {
	x := symBuf("x", 2)
	verifAssert(strings.Contains("a"+x+"b", x), "contains")
	verifAssert(len(strings.Repeat(x, 2)) == 2*len(x), "repeat")
	verifAssert(strings.ReplaceAll("a-b", "-", "+") == "a+b", "replaceall")
	verifCover("end")
}
func Harness_Self_Std_strings2() {
	verifAssert(strings.TrimSpace("  a ") == "a", "trimspace")
	verifCover("end")
}
func Harness_Self_Std_strings3() {
	verifAssert(strings.ToUpper("ab") == "AB", "upper")
	verifCover("end")
}
func Harness_Self_Std_strings4() {
	verifAssert(strings.TrimLeft("xxa", "x") == "a" && strings.TrimRight("axx", "x") == "a" && strings.TrimPrefix("xa", "x") == "a" && strings.Trim("xax", "x") == "a", "trims")
	verifAssert(len(strings.Fields("a b")) == 2, "fields")
	verifCover("end")
}
func Harness_Self_Std_strings5() {
	x := symBuf("x", 2)
	verifAssert(strings.EqualFold("a", "A"), "fold")
	verifAssert(strings.LastIndex("a"+x+"a", "a") >= 0, "lastindex")
	verifAssert(strings.IndexByte("a"+x, 'a') == 0, "indexbyte")
	verifAssert(strings.Compare("a", "b") < 0, "compare")
	a, b, ok := strings.Cut("k=v", "=")
	verifAssert(ok && a == "k" && b == "v", "cut")
	verifCover("end")
}
func Harness_Self_Std_fmt1() {
	a := verifInt("a")
	verifAssume(a >= 0 && a < 100)
	verifAssert(fmt.Sprint(a) == strconv.Itoa(a), "sprint")
	verifCover("end")
}
func Harness_Self_Std_fmt2() {
	verifAssert(fmt.Sprintln("a", 1) == "a 1\n", "sprintln")
	verifCover("end")
}
func Harness_Self_Std_fmt3() {
	e := fmt.Errorf("x %d", 1)
	verifAssert(e.Error() == "x 1", "errorf")
	e2 := errors.New("y")
	verifAssert(e2.Error() == "y", "errors.New")
	verifCover("end")
}
func Harness_Self_Std_fmt4() {
	fmt.Fprintf(os.Stderr, "x %d\n", 1)
	fmt.Fprintln(os.Stderr, "y")
	fmt.Println("z")
	fmt.Print("w")
	verifCover("end")
}
func Harness_Self_Std_strconv() {
	n, err := strconv.ParseInt("12", 10, 64)
	verifAssert(err == nil && n == 12, "parseint")
	verifAssert(strconv.Quote("a\"") == "\"a\\\"\"", "quote")
	verifCover("end")
}
func Harness_Self_Std_strconv2() {
	b, err := strconv.ParseBool("true")
	verifAssert(err == nil && b, "parsebool")
	verifAssert(strconv.FormatBool(true) == "true", "formatbool")
	verifCover("end")
}
func Harness_Self_Std_unicode() {
	verifAssert(unicode.IsUpper('A') && unicode.IsLetter('a') && unicode.IsDigit('1') && unicode.IsSpace(' '), "unicode")
	verifCover("end")
}
func Harness_Self_Std_utf8() {
	verifAssert(utf8.RuneCountInString("é") == 1 && utf8.RuneLen('é') == 2 && utf8.ValidString("a"), "utf8")
	r, n := utf8.DecodeRuneInString("é")
	verifAssert(r == 'é' && n == 2, "decode")
	verifCover("end")
}
func Harness_Self_Std_bytes() {
	verifAssert(bytes.Equal([]byte("a"), []byte("a")) && bytes.Contains([]byte("ab"), []byte("b")), "bytes")
	var b bytes.Buffer
	b.WriteByte('a')
	b.WriteRune('é')
	b.Write([]byte("x"))
	verifAssert(b.Len() == 4, "buffer")
	b.Reset()
	verifAssert(b.String() == "", "reset")
	verifCover("end")
}
func Harness_Self_Std_builder() {
	var sb strings.Builder
	sb.WriteByte('a')
	sb.WriteRune('é')
	sb.WriteString("x")
	fmt.Fprintf(&sb, "%d", 3)
	verifAssert(sb.String() == "aéx3" && sb.Len() == 5, "builder")
	verifCover("end")
}
func Harness_Self_Std_maps() {
	m := map[string]int{"a": 1, "b": 2}
	ks := slices.Sorted(maps.Keys(m))
	verifAssert(len(ks) == 2 && ks[0] == "a", "maps.Keys")
	verifCover("end")
}
func Harness_Self_Std_maps2() {
	m := map[string]int{"a": 1, "b": 2}
	delete(m, "a")
	_, ok := m["a"]
	verifAssert(!ok && len(m) == 1, "delete")
	clear(m)
	verifAssert(len(m) == 0, "clear")
	verifCover("end")
}
func Harness_Self_Std_filepath() {
	verifAssert(filepath.Base("a/b.fo") == "b.fo" && filepath.Ext("b.fo") == ".fo" && filepath.Join("a", "b") == "a/b" && filepath.Dir("a/b") == "a", "filepath")
	verifCover("end")
}
func Harness_Self_Std_defer() {
	r := func() (x int) {
		defer func() {
			if e := recover(); e != nil {
				x = 7
			}
		}()
		var m map[string]int
		m["a"] = 1
		return 1
	}()
	verifAssert(r == 7, "recover from nil map write")
	verifCover("end")
}
func Harness_Self_Std_conv() {
	a := verifInt("a")
	verifAssume(a >= 0 && a < 128)
	s := string(rune(a))
	verifAssert(len(s) == 1, "rune to string")
	verifCover("end")
}
func Harness_Self_Std_conv2() {
	b := verifByte("b")
	s := string(b)
	verifAssert(len(s) >= 1, "byte to string (code point)")
	rs := []rune("aé")
	verifAssert(len(rs) == 2 && string(rs) == "aé", "runes")
	for i, r := range "é!" {
		_ = i
		_ = r
	}
	verifCover("end")
}
