package VERIFPKG

// Engine self-validation: Go semantics the harnesses and the code under test
// rely on, asserted with concrete expectations.  The same functions run
// natively (go test replay) and inside symgo; both must pass.

type stRec struct {
	A int
	B string
	C [2]int
}

func Harness_Self_ValueSemantics() {
	x := verifInt("x")
	src := []stRec{{1, "a", [2]int{1, 2}}, {2, "b", [2]int{3, 4}}, {x, "c", [2]int{5, 6}}}
	dst := append(src[:0:0], src...)
	dst[0], dst[2] = dst[2], dst[0]
	dst[1].A = 99
	dst[1].C[0] = 77
	verifAssert(src[0].A == 1 && src[2].A == x && src[1].A == 2 && src[1].C[0] == 3, "append copies struct elements (no sharing with the source)")
	verifAssert(dst[0].A == x && dst[2].A == 1 && dst[1].A == 99 && dst[1].C[0] == 77, "swaps and field stores act on the copy")
	cp := make([]stRec, 3)
	copy(cp, src)
	cp[0].B = "z"
	verifAssert(src[0].B == "a" && cp[0].B == "z", "copy copies struct elements")
	head := append([]stRec{{7, "h", [2]int{}}}, src...)
	head[1].A = 5
	verifAssert(src[0].A == 1, "append(ret, s...) copies the elements of s")
	r := src[1]
	r.A = 42
	verifAssert(src[1].A == 2, "assignment copies a struct")
	p := &src[1]
	p.A = 43
	verifAssert(src[1].A == 43, "a pointer to an element aliases it")
	arr := [3]int{1, 2, 3}
	arr2 := arr
	arr2[0] = 9
	verifAssert(arr[0] == 1 && arr2[0] == 9, "arrays are values")
	m := map[string]stRec{"k": src[0]}
	v := m["k"]
	v.A = 1000
	verifAssert(m["k"].A == 1, "map values are copies")
	verifCover("end")
}

func Harness_Self_SlicesAndCaps() {
	s := make([]int, 2, 4)
	t := append(s, 7)
	u := append(s, 8)
	verifAssert(t[2] == 8 && u[2] == 8, "append within capacity shares the backing array")
	w := append(s[:2:2], 9)
	w[0] = 5
	verifAssert(s[0] == 0 && len(w) == 3, "append beyond capacity allocates")
	var n []int
	verifAssert(n == nil && len(n) == 0 && len(append(n, 1)) == 1, "nil slices")
	e := []int{}
	verifAssert(e != nil && len(e) == 0, "empty non-nil slice")
	verifCover("end")
}

func Harness_Self_ControlFlow() {
	x := verifInt("x")
	verifAssume(-5 < x && x < 5)
	// defer / recover / closures
	order := ""
	f := func() (r int) {
		defer func() {
			if e := recover(); e != nil {
				order += "R"
				r = -1
			}
		}()
		defer func() { order += "D" }()
		if x > 0 {
			panic("boom")
		}
		return x
	}
	got := f()
	if x > 0 {
		verifAssert(got == -1 && order == "DR", "deferred functions run in LIFO order, recover sets the result")
	} else {
		verifAssert(got == x && order == "D", "normal return runs deferred functions")
	}
	cnt := 0
	inc := func() int { cnt++; return cnt }
	a := inc() + inc()*10
	verifAssert(a == 21, "calls in an expression run left to right")
	sw := 0
	switch {
	case x < 0:
		sw = 1
	case x == 0:
		sw = 2
	default:
		sw = 3
	}
	verifAssert((sw == 1) == (x < 0) && (sw == 2) == (x == 0), "switch")
	// integer semantics
	var i8 int8 = 127
	i8++
	verifAssert(i8 == -128, "int8 wraps")
	var u8 uint8 = 0
	u8--
	verifAssert(u8 == 255, "uint8 wraps")
	verifAssert((x+10)/3 == (x+10)/3 && -7/2 == -3 && -7%2 == -1, "division truncates toward zero")
	verifAssert(x<<1 == x*2 && (x>>1)*2 <= x, "shifts")
	verifCover("end")
}

func Harness_Self_StringsAndMaps() {
	s := verifString("s", 2)
	verifAssume(s[0] < 0x80 && s[1] < 0x80)
	t := s + "x"
	verifAssert(len(t) == 3 && t[2] == 'x' && t[:2] == s && t[1:] == string(s[1])+"x", "string concat / index / slice")
	verifAssert((s < t) && (s <= s) && !(t < s), "a proper prefix is smaller")
	bs := []byte(t)
	bs[0] = 'q'
	verifAssert(string(bs)[0] == 'q' && t[0] == s[0], "[]byte(s) is a copy")
	m := map[string]int{}
	m[s] = 1
	m[t] = 2
	m[s]++
	verifAssert(m[s] == 2 && m[t] == 2 && len(m) == 2, "map update / lookup with symbolic string keys")
	delete(m, s)
	_, ok := m[s]
	verifAssert(!ok && len(m) == 1, "delete")
	n := 0
	for range m {
		n++
	}
	verifAssert(n == 1, "range over map")
	var iface any = s
	_, isStr := iface.(string)
	_, isInt := iface.(int)
	verifAssert(isStr && !isInt, "type assertion")
	verifCover("end")
}

type stHolder struct {
	N int
	V any
}

func Harness_Self_UncomparableInterface() {
	a, b := verifInt("a"), verifInt("b")
	x, y := stHolder{a, []int{1}}, stHolder{b, []int{1}}
	p, msg := tryRun(func() { _ = any(x) == any(y) })
	if a == b {
		verifAssert(p, "== reaching an uncomparable dynamic type panics: "+msg)
	} else {
		verifAssert(!p, "== stops at the first differing field before an uncomparable one")
	}
	verifCover("end")
}
