package VERIFPKG

import (
	"reflect"
	"sort"
)

// sort.Slice runs from the real std source over the engine's
// reflectlite.Swapper / ValueOf / Len stand-ins
func Harness_Self_SortSlice() {
	a, b, c := verifInt("a"), verifInt("b"), verifInt("c")
	s := []int{a, b, c}
	sort.Slice(s, func(i, j int) bool { return s[i] < s[j] })
	verifAssert(s[0] <= s[1] && s[1] <= s[2], "sort.Slice sorts")
	verifAssert(s[0]+s[1]+s[2] == a+b+c, "sort.Slice permutes")
	type kv struct {
		k int
		v string
	}
	t := []kv{{a, "a"}, {b, "b"}}
	sort.SliceStable(t, func(i, j int) bool { return t[i].k < t[j].k })
	verifAssert(t[0].k <= t[1].k, "sort.SliceStable sorts structs")
	if a == b {
		verifAssert(t[0].v == "a", "sort.SliceStable is stable")
	}
	// windows of one array have the same Pointer exactly when they start at the same element
	arr := []int{1, 2, 3, 4}
	p0, p1, p2 := reflect.ValueOf(arr[:2]).Pointer(), reflect.ValueOf(arr[:3]).Pointer(), reflect.ValueOf(arr[1:]).Pointer()
	verifAssert(p0 == p1 && p0 != p2, "reflect.Value.Pointer follows the backing array")
	verifAssert(reflect.ValueOf(arr[1:3]).Len() == 2 && reflect.ValueOf(arr[1:3]).Cap() == 3, "reflect Len / Cap")
	var nl []int
	verifAssert(reflect.ValueOf(nl).IsNil() && !reflect.ValueOf(arr).IsNil(), "reflect IsNil")
	verifCover("end")
}
