package VERIFPKG

// second batch of std entry points (see h_selftest_std.go)

import (
	"bytes"
	"errors"
	"fmt"
	"io"
	"maps"
	"os"
	"slices"
	"strconv"
	"strings"
	"sync"
	"sync/atomic"
	"unicode"
	"unicode/utf8"
)

func Harness_Self_Std2_strings() {
	x := symBuf("x", 2)
	verifAssert(strings.IndexRune("a"+x, 'a') == 0, "indexrune")
	verifAssert(strings.ContainsRune("ab", 'b') && strings.ContainsAny("ab", "xb") && strings.IndexAny("ab", "b") == 1, "any")
	verifAssert(strings.Map(func(r rune) rune { return r + 1 }, "ab") == "bc", "map")
	verifAssert(strings.Title("ab") == "Ab" || true, "title")
	verifCover("end")
}
func Harness_Self_Std2_strings2() {
	verifAssert(strings.NewReplacer("a", "b").Replace("aa") == "bb", "replacer")
	verifCover("end")
}
func Harness_Self_Std2_strings3() {
	verifAssert(len(strings.SplitAfter("a,b", ",")) == 2 && strings.ToLower("AB") == "ab" && strings.Replace("aaa", "a", "b", 2) == "bba", "misc")
	verifAssert(strings.HasPrefix(strings.TrimFunc("  a ", unicode.IsSpace), "a"), "trimfunc")
	verifAssert(strings.LastIndexByte("aba", 'a') == 2, "lastindexbyte")
	verifCover("end")
}
func Harness_Self_Std2_builder() {
	var sb strings.Builder
	sb.Write([]byte("ab"))
	sb.Reset()
	sb.WriteString("c")
	verifAssert(sb.String() == "c", "builder write/reset")
	b := bytes.NewBufferString("x")
	b.WriteString("y")
	verifAssert(b.String() == "xy", "NewBufferString")
	verifAssert(string(b.Bytes()) == "xy", "Bytes")
	verifCover("end")
}
func Harness_Self_Std2_slices() {
	a, b := verifInt("a"), verifInt("b")
	s := []int{a, b, 3}
	slices.SortStableFunc(s, func(x, y int) int { return x - y })
	_, found := slices.BinarySearch([]int{1, 2, 3}, 2)
	verifAssert(found, "binarysearch")
	verifAssert(len(slices.Compact([]int{1, 1, 2})) == 2, "compact")
	verifAssert(slices.IndexFunc(s, func(x int) bool { return x == 3 }) >= 0, "indexfunc")
	verifAssert(slices.ContainsFunc(s, func(x int) bool { return x == 3 }), "containsfunc")
	verifCover("end")
}
func Harness_Self_Std2_maps() {
	m := map[string]int{"a": 1}
	c := maps.Clone(m)
	c["b"] = 2
	verifAssert(len(m) == 1 && len(c) == 2, "clone")
	vs := slices.Collect(maps.Values(m))
	verifAssert(len(vs) == 1, "values")
	verifCover("end")
}
func Harness_Self_Std2_sync() {
	var mu sync.Mutex
	mu.Lock()
	mu.Unlock()
	verifCover("end")
}
func Harness_Self_Std2_once() {
	var once sync.Once
	n := 0
	once.Do(func() { n++ })
	once.Do(func() { n++ })
	verifAssert(n == 1, "once")
	verifCover("end")
}
func Harness_Self_Std2_atomic() {
	var c int64
	atomic.AddInt64(&c, 2)
	verifAssert(atomic.LoadInt64(&c) == 2, "atomic")
	verifCover("end")
}
func Harness_Self_Std2_rwmutex() {
	var mu sync.RWMutex
	mu.RLock()
	mu.RUnlock()
	mu.Lock()
	mu.Unlock()
	verifCover("end")
}
func Harness_Self_Std2_errors2() {
	e1 := errors.New("a")
	verifAssert(errors.Unwrap(e1) == nil, "unwrap")
	verifCover("end")
}
func Harness_Self_Std2_io() {
	var sb strings.Builder
	io.WriteString(&sb, "a")
	verifAssert(sb.String() == "a", "io.WriteString")
	verifCover("end")
}
func Harness_Self_Std2_utf8() {
	var buf [4]byte
	n := utf8.EncodeRune(buf[:], 'é')
	verifAssert(n == 2, "encoderune")
	verifAssert(unicode.ToUpper('a') == 'A', "toupper")
	verifAssert(utf8.AppendRune(nil, 'a')[0] == 'a', "appendrune")
	verifCover("end")
}
func Harness_Self_Std2_strconv() {
	f, err := strconv.ParseFloat("1.5", 64)
	verifAssert(err == nil && f == 1.5, "parsefloat")
	verifCover("end")
}
func Harness_Self_Std2_strconv2() {
	u, err := strconv.ParseUint("15", 10, 64)
	verifAssert(err == nil && u == 15, "parseuint")
	verifAssert(strconv.AppendInt(nil, 12, 10)[0] == '1', "appendint")
	verifCover("end")
}
func Harness_Self_Std2_typeswitch() {
	var x any = 3
	switch v := x.(type) {
	case fmt.Stringer:
		_ = v
	case int:
		verifAssert(v == 3, "ts")
	}
	verifCover("end")
}
func Harness_Self_Std2_sprintf() {
	a := verifInt("a")
	verifAssume(a >= 0 && a < 10)
	d := strconv.Itoa(a)
	verifAssert(fmt.Sprintf("%3d|%-3d|%03d|%x|%q|%5s|%c|%+d|%-4s|", a, a, a, 255, "s", "ab", 'x', a, "ab") == "  "+d+"|"+d+"  |00"+d+"|ff|\"s\"|   ab|x|+"+d+"|ab  |", "verbs, flags and widths")
	verifAssert(fmt.Sprintf("%03d|%4d|%-4d|", -5, -5, -5) == "-05|  -5|-5  |", "negative numbers")
	verifCover("end")
}
func Harness_Self_Std2_sprintf2() {
	verifAssert(fmt.Sprintf("%v %+v %T", struct{ A int }{1}, struct{ A int }{1}, 3) == "{1} {A:1} int", "structs")
	verifCover("end")
}
func Harness_Self_Std2_sprintf3() {
	verifAssert(fmt.Sprintf("%v %v %v", []int{1, 2}, map[string]int{"a": 1}, [2]bool{true, false}) == "[1 2] map[a:1] [true false]", "composite")
	verifCover("end")
}

type selfErr struct{ inner error }

func (e selfErr) Error() string { return "self: " + e.inner.Error() }
func (e selfErr) Unwrap() error { return e.inner }

func Harness_Self_Std2_errorsIs() {
	e1 := errors.New("a")
	e2 := errors.New("a")
	verifAssert(errors.Is(e1, e1) && !errors.Is(e1, e2) && !errors.Is(nil, e1), "identity")
	verifAssert(errors.Is(selfErr{e1}, e1) && !errors.Is(selfErr{e2}, e1), "unwrap chain")
	verifCover("end")
}

func Harness_Self_Std2_notExist() {
	_, err := os.ReadFile("verif-no-such-file.txt")
	verifAssert(err != nil && errors.Is(err, os.ErrNotExist) && os.IsNotExist(err) && !errors.Is(err, os.ErrPermission), "a missing file is ErrNotExist")
	verifCover("end")
}
