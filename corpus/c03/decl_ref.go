package main

// Hand-written Go client that relies only on the documented shape of what fc
// emits (struct fields, U_C case structs with field Value, New_U_C
// constructors, frt.TupleN, package funcs / vars).  go build decides that it
// compiles; symgo decides that it computes what the documentation implies.

import "github.com/karino2/folang/pkg/frt"

func Harness_C03_records() {
	x, s := verifInt("x"), symBuf("s", 2)
	r := Rec{A: x, B: s}
	verifAssert(r.A == x && r.B == s, "record = struct with the same field names in order")
	r2 := fn2(x, s)
	verifAssert(r2 == r, "a function returning a record literal builds the same struct")
	var same Rec = Rec{x, s} // positional: field order A, B
	verifAssert(same == r, "fields are declared in source order")
	verifAssert(useT(T{Tag: x}) == x, "a user type named T")
	g := GRec[string]{V: s, N: x}
	verifAssert(g.V == s && g.N == x, "generic record = generic struct")
	n := Nest{R: r, L: []int{x}, T: frt.NewTuple2(x, s)}
	var t2 frt.Tuple2[int, string] = n.T
	verifAssert(n.R.A == x && n.L[0] == x && t2.E0 == x && t2.E1 == s, "field types map as documented (record, slice, tuple)")
	verifCover("end")
}

func Harness_C03_and_groups() {
	x, s := verifInt("x"), symBuf("s", 2)
	// positional literals: the Go compiler checks that the fields come in declared order
	it := Item{s, New_Holder_Someone("h"), x}
	sl := Slot{it, x, []Item{it}, s}
	verifAssert(sl.Tool.Name == s && sl.Count == x && sl.Spare[0].Weight == x && sl.Label == s, "a record of an 'and' group keeps its declared field order")
	verifAssert(it.Owner == Holder(Holder_Someone{Value: "h"}), "a union declared later in the group is the field's type")
	n := TNode{[]TNode{{nil, "kid", 1}}, s, x}
	verifAssert(n.Kids[0].Label == "kid" && n.Label == s && n.Depth == x, "a self-referential record keeps its declared field order")
	verifCover("end")
}

func Harness_C03_external_types() {
	a := verifInt("a")
	w := mkWithExt(a)
	// the documented shapes: an opaque type by its own name, a parametrised one instantiated, dict.Dict, curried function types as Go funcs
	var o Opaque = w.O
	var h Holder2[int] = w.H
	var f func([]int, int) int = w.F
	verifAssert(opaqueVal(o) == a*3 && h.Held == a && f(nil, 2) == a+2, "record fields of external, parametrised and function types")
	verifAssert(useWithExt(w) == (a*3+1)+(a+1)+2+a+(a+5), "generic higher-order foreign functions called with lambdas; tuple result destructured")
	verifAssert(regWithExt("k", a) && len(topDict.Fdict) == 1, "a top-level variable initialised by a call with type arguments")
	verifCover("end")
}

func Harness_C03_qualified_literals() {
	a := verifInt("a")
	var b1 sizeB = mkFirstQ(a)
	var b2 sizeB = mkLaterQ(a)
	var a1 sizeA = mkLaterA(a)
	verifAssert(b1 == sizeB{a, 3} && b2 == sizeB{a, 3} && a1 == sizeA{a, 4}, "a record literal builds the record its qualifier names, on whichever field the qualifier is written")
	verifCover("end")
}

func Harness_C03_type_expressions() {
	s := symBuf("s", 1)
	r := mkTyRec([]int{1}, s)
	var f frt.Tuple2[[]int, string] = r.F
	var g frt.Tuple3[int, []string, bool] = r.G
	var h func(frt.Tuple2[[]int, string]) int = r.H
	var a TyUni = New_TyUni_TyA(f)
	var b TyUni = New_TyUni_TyB(frt.NewTuple2(1, []string{s}))
	_, isA := a.(TyUni_TyA)
	_, isB := b.(TyUni_TyB)
	verifAssert(f.E1 == s && g.E1[0] == s && h(f) == 7 && isA && isB, "field and payload types: []T*U is ([]T)*U, T*[]U*V, ([]T*U)->V")
	verifCover("end")
}

func Harness_C03_generic_union_two_params() {
	x := verifInt("x")
	s := symBuf("s", 1)
	var ok Res2[int, string] = New_Res2_ROk[int, string](x)
	var er Res2[int, string] = New_Res2_RErr[int, string](s)
	var no Res2[int, string] = New_Res2_RNone[int, string]()
	_, isOk := ok.(Res2_ROk[int, string])
	_, isErr := er.(Res2_RErr[int, string])
	_, isNone := no.(Res2_RNone[int, string])
	verifAssert(isOk && isErr && isNone, "New_U_C of a generic union builds U_C[T, E] with the type arguments in declared order")
	verifAssert(useRes2(ok) == x && useRes2(er) == -1 && useRes2(no) == 0, "a Folang match dispatches on the Go-built values")
	verifCover("end")
}

func Harness_C03_unions() {
	x := verifInt("x")
	var u U = U_P{Value: x}
	verifAssert(New_U_P(x) == u, "New_U_C is a function for a case with payload")
	var q U = New_U_Q // a package variable for a case without payload
	verifAssert(q == U(U_Q{}), "New_U_C is a variable for a case without payload")
	var r U = New_U_R(frt.NewTuple2("r", x))
	got := 0
	switch v := u.(type) {
	case U_P:
		got = v.Value
	case U_Q:
		got = -1
	case U_R:
		got = v.Value.E1
	}
	verifAssert(got == x, "type switch on the case struct, payload in field Value")
	k := verifChoice("k", 3)
	m := mkU(k, x)
	switch k {
	case 0:
		verifAssert(m == u, "Folang-built P equals Go-built U_P")
	case 1:
		verifAssert(m == q, "Folang-built Q equals New_U_Q")
	case 2:
		verifAssert(m == r, "Folang-built R equals Go-built U_R")
	}
	verifAssert(q.(U_Q).String() == "(Q)", "case structs are Stringers")
	// generic union: constructors are functions also for the case without payload
	var gs GU[int] = New_GU_Some(x)
	var gn GU[int] = New_GU_None[int]()
	verifAssert(useGU(gs) == x && useGU(gn) == -1, "generic union constructors")
	verifAssert(gs == GU[int](GU_Some[int]{Value: x}), "generic case struct")
	verifCover("end")
}

func Harness_C03_toplevel() {
	a, b, c := verifInt("a"), verifInt("b"), verifInt("c")
	verifAssert(fn3(a, b, c) == a-2*b+3*c, "parameters in source order")
	var f0 func() int = unitparam
	verifAssert(f0() == 7, "unit parameter = no parameter")
	var f1 func(int) = unitresult
	o := observe(func() { f1(a) })
	verifAssert(len(o.emitted) == 1, "unit result = no result")
	var v int = topv
	verifAssert(v == 5, "top-level let of a value = package var")
	s := symBuf("s", 1)
	var p frt.Tuple2[int, string] = pair(a, s)
	var t frt.Tuple3[int, string, bool] = triple(a, s, true)
	verifAssert(p.E0 == a && p.E1 == s && t.E0 == a && t.E1 == s && t.E2, "tuples are frt.Tuple2 / frt.Tuple3")
	verifCover("end")
}
