package main

// the same callees in the current package (package_info _)

func e1(a int) int          { return 7 * a }
func e2(a, b int) int       { return a - 2*b }
func e3(a, b, c int) int    { return a - 2*b + 3*c }
func e4(a, b, c, d int) int { return a - 2*b + 3*c - 5*d }

func pick[T any](k int, a T, b T) T {
	if k == 0 {
		return a
	}
	return b
}

func refE(n int, v []int) int {
	c := []int{1, -2, 3, -5}
	if n == 1 {
		return 7 * v[0]
	}
	r := 0
	for i := 0; i < n; i++ {
		r += c[i] * v[i]
	}
	return r
}

func zeroOr[T any](a int, b int) []T { return make([]T, 1) }
