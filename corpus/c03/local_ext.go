package main

import "github.com/karino2/folang/pkg/frt"

// the same callees in the current package (package_info _)

func e1(a int) int          { return 7 * a }
func e2(a, b int) int       { return a - 2*b }
func e3(a, b, c int) int    { return a - 2*b + 3*c }
func e4(a, b, c, d int) int { return a - 2*b + 3*c - 5*d }

func pick[T any](k int, a T, b T) T {
	if k == 0 {
		return a
	}
	return b
}

func refE(n int, v []int) int {
	c := []int{1, -2, 3, -5}
	if n == 1 {
		return 7 * v[0]
	}
	r := 0
	for i := 0; i < n; i++ {
		r += c[i] * v[i]
	}
	return r
}

func zeroOr[T any](a int, b int) []T { return make([]T, 1) }

// opaque / parametrised external types of the current package and generic higher-order callees
type Opaque struct{ v int }
type Holder2[T any] struct{ Held T }

func mkOpaque(a int) Opaque          { return Opaque{a * 3} }
func opaqueVal(o Opaque) int         { return o.v }
func wrapH[T any](t T) Holder2[T]    { return Holder2[T]{t} }
func unwrapH[T any](h Holder2[T]) T  { return h.Held }
func applyAll[T any](f func(T) T, xs []T) []T {
	var r []T
	for _, x := range xs {
		r = append(r, f(x))
	}
	return r
}
func foldPairs[T any, U any](f func(T, U) T, z T, xs []U) frt.Tuple2[T, int] {
	for _, x := range xs {
		z = f(z, x)
	}
	return frt.NewTuple2(z, len(xs))
}
