// Package extpkg: hand-written Go called from Folang through package_info.
package extpkg

func E1(a int) int          { return 7 * a }
func E2(a, b int) int       { return a - 2*b }
func E3(a, b, c int) int    { return a - 2*b + 3*c }
func E4(a, b, c, d int) int { return a - 2*b + 3*c - 5*d }

func Pick[T any](k int, a T, b T) T {
	if k == 0 {
		return a
	}
	return b
}

// ZeroOr: the type parameter occurs only in the result.
func ZeroOr[T any](a int, b int) []T {
	return make([]T, 1)
}
