package main

import "github.com/karino2/folang/pkg/frt"

// C11 end-to-end: literals through the real fc, incl. multi-byte UTF-8.

func Harness_C11L2_literals() {
	verifAssert(l_utf8() == "héllo→世界 100% \"q\" \\ tab\tnl\n.", "\"...\" literal with UTF-8, %, escapes")
	verifAssert(l_raw() == "a\"b\\c %d\nnext line é世", "`...` literal keeps quotes, backslashes, newlines")
	verifAssert(l_multiline() == "first\nsecond", "a newline inside \"...\"")
	a := verifInt("a")
	verifAssume(0 <= a && a < 100)
	s := symBuf("s", 2)
	d := frt.Sprintf1("%d", a)
	verifAssert(l_interp(a, s) == "é"+d+"% "+s+"→{k} \"q\" 50%%", "$\"...\" with holes, literal %, brace escapes, UTF-8")
	verifAssert(l_interp_raw(a, s) == "x\""+d+"\"\\n% "+s+"\n世", "$`...` with holes")
	verifCover("end")
}

func boolText(b bool) string {
	if b {
		return "true"
	}
	return "false"
}

func Harness_C11L2_hole_kinds() {
	a, n := verifInt("a"), verifInt("n")
	verifAssume(0 <= a)
	verifAssume(a < 100)
	verifAssume(0 <= n)
	verifAssume(n < 100)
	b := verifBool("b")
	s := symBuf("s", 1)
	da, dn := frt.Sprintf1("%d", a), frt.Sprintf1("%d", n)
	verifAssert(l_hole_bool(b) == "b="+boolText(b)+"!", "a bool hole renders as true / false")
	verifAssert(l_hole_rec(n, s, b) == "r={"+dn+" "+s+" "+boolText(b)+"}", "a record hole renders as Go %v")
	verifAssert(l_hole_tuple(n, s) == "t={"+dn+" "+s+"}", "a tuple hole renders as Go %v")
	verifAssert(l_hole_slice(a, n) == "xs=["+da+" "+dn+"] "+da, "a slice hole renders as Go %v")
	verifCover("end")
}

func Harness_C11L2_hole_names() {
	n, x := verifInt("n"), verifInt("x")
	verifAssume(0 <= n)
	verifAssume(n < 100)
	verifAssume(0 <= x)
	verifAssume(x < 100)
	s := symBuf("s", 1)
	dn, dx := frt.Sprintf1("%d", n), frt.Sprintf1("%d", x)
	verifAssert(l_hole_names(n, x, s) == "n="+dn+" x="+dx+" s="+s+dn, "holes whose names start with an underscore or contain digits / underscores")
	verifCover("end")
}
