package main

// References and harnesses for p_data.fo.

import "github.com/karino2/folang/pkg/frt"

func symShape(tag string) (Shape, int, int, int) {
	switch verifChoice(tag+".case", 3) {
	case 0:
		r := verifInt(tag + ".r")
		return New_Shape_Circle(r), 0, r, 0
	case 1:
		w, h := verifInt(tag+".w"), verifInt(tag+".h")
		return New_Shape_Rect(frt.NewTuple2(w, h)), 1, w, h
	}
	return New_Shape_Dot, 2, 0, 0
}

func refArea(k, a, b int) int {
	switch k {
	case 0:
		return 3 * a * a
	case 1:
		return a * b
	}
	return 0
}

func Harness_C01_d_match() {
	s, k, a, b := symShape("s")
	verifAssert(area(s) == refArea(k, a, b), "area: match dispatches to the case the value was built with and binds its payload")
	x, y := verifInt("x"), verifInt("y")
	kk := verifChoice("k", 3)
	verifAssert(d_match_built(kk, x, y) == refArea(kk, x, y), "d_match_built: constructors and match agree")
	var got, want int
	og := observe(func() { got = d_match_default(s) })
	ow := observe(func() {
		if k == 2 {
			want = tr(1)
		} else {
			want = tr(2)
		}
	})
	verifAssert(got == want && sameObs(og, ow), "d_match_default: default arm")
	names := []string{"circle", "rect", "dot"}
	verifAssert(d_match_ignore(s) == names[k], "d_match_ignore: _ payload pattern")
	og = observe(func() { got = d_match_as_let(s, x) })
	ow = observe(func() {
		w := 0
		if k == 0 {
			w = tr(a)
		} else {
			w = tr(x)
		}
		want = w + 1
	})
	verifAssert(got == want && sameObs(og, ow), "d_match_as_let: match as a let right-hand side")
	verifCover("end")
}

func Harness_C01_d_smatch() {
	s := symBuf("s", 2)
	want := 3
	if s == "a" {
		want = 1
	} else if s == "bb" {
		want = 2
	}
	verifAssert(d_smatch(s) == want, "d_smatch: string match with a variable arm")
	verifCover("end")
}

func Harness_C01_d_records_tuples() {
	a, b, c := verifInt("a"), verifInt("b"), verifInt("c")
	verifAssert(d_record(a, b) == a-b+a, "d_record: record literal and nested field access")
	n := verifChoice("n", maxLenEnv()+1)
	var ps []Pt
	for i := 0; i < n; i++ {
		ps = append(ps, Pt{X: verifInt("px" + itoaV(i)), Y: verifInt("py" + itoaV(i))})
	}
	xs := d_record_fields(ps)
	verifAssert(len(xs) == n, "d_record_fields: length")
	for i := range ps {
		verifAssert(xs[i] == ps[i].X, "d_record_fields: _.X shorthand")
	}
	s := symBuf("s", 1)
	t := d_tuple(a, s)
	verifAssert(t.E0 == s && t.E1 == a+1, "d_tuple: tuple construction and destructuring incl. _")
	verifAssert(d_tuple3(a, b, c) == c-2*a+3*b, "d_tuple3: 3-tuple destructuring keeps positions")
	verifCover("end")
}

func Harness_C01_d_slices() {
	xs := symInts("xs", maxLenEnv()+1)
	k := verifInt("k")
	r := d_slices(xs, k)
	n, total := 0, 0
	for _, x := range xs {
		if x > k {
			n++
			total += x * 2
		}
	}
	verifAssert(r.E0 == n && r.E1 == total, "d_slices: Filter |> Map, Fold with lambdas")
	a, b := verifInt("a"), verifInt("b")
	var got []int
	og := observe(func() { got = d_slice_lit(a, b) })
	verifAssert(sameInts(got, []int{a, b, 7}), "d_slice_lit: slice literal, Take, PushLast")
	verifAssert(len(og.trace) == 1 && og.trace[0] == 7, "d_slice_lit: argument evaluated once")
	verifCover("end")
}

func Harness_C01_d_interp() {
	a := verifInt("a")
	verifAssume(0 <= a && a < 100)
	s := symBuf("s", 2)
	verifAssert(d_interp(a, s) == "a="+frt.Sprintf1("%d", a)+" s="+s+" 100% {x}", "d_interp: interpolation of ints and strings, literal % and braces")
	verifCover("end")
}

func Harness_C01_d_nested() {
	c := verifBool("c")
	n := verifChoice("n", maxLenEnv()+1)
	var ss []Shape
	want := 0
	for i := 0; i < n; i++ {
		s, k, a, b := symShape("s" + itoaV(i))
		ss = append(ss, s)
		want += refArea(k, a, b)
	}
	if !c {
		want = -1
	}
	verifAssert(d_nested(c, ss) == want, "d_nested: pipe stages inside an if branch")
	a := verifInt("a")
	var got, w int
	og := observe(func() { got = d_block_value(a, c) })
	ow := observe(func() {
		v := 0
		if c {
			t := tr(a)
			v = t * 2
		} else {
			v = tr(0)
		}
		w = v + 1
	})
	verifAssert(got == w && sameObs(og, ow), "d_block_value: a multi-statement block used as a value")
	verifAssert(d_topvar(a) == a+42, "d_topvar: top-level let variable")
	verifCover("end")
}

func Harness_C01_d_effect_order() {
	a, b, c := verifInt("a"), verifInt("b"), verifInt("c")
	og := observe(func() { d_effect_order(a, b, c) })
	got := d_effect_order(a, b, c)
	trace, emitted = nil, nil
	verifAssert(got.E0 == b-a && got.E1 == frt.NewTuple3(c, a+1, b+1) && got.E2 == 2+8, "d_effect_order: values")
	want := []int{a, b, c, a + 1, b + 1, 100, 200, 7, 8, 9}
	verifAssert(sameInts(og.trace, want), "d_effect_order: initialisers of record fields run in written order, tuple and slice elements left to right")
	verifCover("end")
}
