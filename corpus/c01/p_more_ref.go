package main

// References and harnesses for p_more.fo.

import "github.com/karino2/folang/pkg/frt"

func Harness_C01_m_lambdas() {
	a, b := verifInt("a"), verifInt("b")
	verifAssert(m_lambda_store(a, b) == (b*2+a)-(a*2+a), "m_lambda_store: stored lambdas capture locals, two-parameter lambda")
	verifAssert(m_lambda_arg(a, b) == b+a+a, "m_lambda_arg: lambda passed to a higher-order function")
	verifAssert(m_use_adder(a, b) == (b+a)+(1+a), "m_use_adder: a function returning a closure")
	verifCover("end")
}

func Harness_C01_m_recursion() {
	n := verifInt("n")
	verifAssume(-2 <= n && n <= 4)
	want := 0
	for i := 1; i <= n; i++ {
		want += i
	}
	verifAssert(m_sum_to(n) == want, "m_sum_to: recursion through if/else evaluates only the taken branch")
	verifCover("end")
}

func Harness_C01_m_bools() {
	a, b := verifInt("a"), verifInt("b")
	p := !(a > b)
	q := a >= 0 && b <= 10
	want := 3
	if p && q {
		want = 1
	} else if p || q {
		want = 2
	}
	verifAssert(m_bools(a, b) == want, "m_bools: not, >=, <=, elif")
	verifCover("end")
}

func Harness_C01_m_run() {
	n := verifChoice("n", maxLenEnv()+2)
	var cs []Cmd
	total := 0
	log := ""
	for i := 0; i < n; i++ {
		if i > 0 {
			log += ","
		}
		switch verifChoice("c"+itoaV(i), 3) {
		case 0:
			v := verifInt("v" + itoaV(i))
			cs = append(cs, New_Cmd_Push(v))
			total += v
			log += "push"
		case 1:
			cs = append(cs, New_Cmd_Pop)
			total--
			log += "pop"
		case 2:
			s := symBuf("s"+itoaV(i), 1)
			cs = append(cs, New_Cmd_Say(s))
			log += s
		}
	}
	r := m_run(cs)
	verifAssert(r.E0 == total && r.E1 == log, "m_run: Fold of a matching step function over commands, record construction, field access")
	verifCover("end")
}

func refSortDistinct(xs []int) []int {
	ys := append([]int(nil), xs...)
	for i := 1; i < len(ys); i++ {
		for j := i; j > 0 && ys[j] < ys[j-1]; j-- {
			ys[j], ys[j-1] = ys[j-1], ys[j]
		}
	}
	var out []int
	for i, y := range ys {
		if i == 0 || y != ys[i-1] {
			out = append(out, y)
		}
	}
	return out
}

func Harness_C01_m_library() {
	xs := symInts("xs", maxLenEnv()+1)
	var pos []int
	for _, x := range xs {
		if x > 0 {
			pos = append(pos, x+3)
		}
	}
	verifAssert(sameInts(m_pipeline(xs), refSortDistinct(pos)), "m_pipeline: Filter |> Map |> Sort |> Distinct across lines")
	k := verifInt("k")
	want := -1
	for _, x := range xs {
		if x == k {
			want = x + 1
			break
		}
	}
	verifAssert(m_zip_tryfind(xs, k) == want, "m_zip_tryfind: Zip, TryFind with a tuple-destructured result")
	c := m_collect(xs)
	verifAssert(len(c) == 2*len(xs), "m_collect: length")
	for i, x := range xs {
		verifAssert(c[2*i] == x && c[2*i+1] == x+10, "m_collect: slice literal inside a lambda")
	}
	all, any := true, false
	for _, x := range xs {
		if !(x > k) {
			all = false
		}
		if x == k {
			any = true
		}
	}
	r := m_forall_forany(xs, k)
	verifAssert(r.E0 == all && r.E1 == any, "m_forall_forany")
	verifCover("end")
}

func Harness_C01_m_dict_strings() {
	a, b := verifInt("a"), verifInt("b")
	verifAssert(m_dict(a, b) == a+b, "m_dict: dict.New/Add/TryFind, Add overwrites, destructuring with _")
	s, t := symBuf("s", 1), symBuf("t", 1)
	verifAssume(!(len(s) == 1 && s[0] == ',') && !(len(t) == 1 && t[0] == ','))
	r := m_strings(s, t)
	verifAssert(r.E0 == 2 && r.E1 == s+"-"+t && r.E2, "m_strings: Split, Concat, HasPrefix with the pipeline-friendly argument order")
	verifCover("end")
}

func Harness_C01_m_effects() {
	a := verifInt("a")
	verifAssume(0 <= a && a < 50)
	var got, want int
	og := observe(func() { got = m_effects(a) })
	ow := observe(func() {
		emit("start")
		x := tr(a)
		emit("x=" + frt.Sprintf1("%d", x))
		y := tr(x + 1)
		emit("end")
		want = x + y
	})
	verifAssert(got == want && sameObs(og, ow), "m_effects: unit calls and lets run in source order")
	verifCover("end")
}

func Harness_C01_m_generic_classify() {
	a := verifInt("a")
	s := symBuf("s", 1)
	g := m_generic_uses(a, s)
	verifAssert(g.E0 == a && g.E1 == s, "m_generic_uses: a generic Folang function used at two types")
	ws := []string{symBuf("w0", 1), "b", symBuf("w1", 2)}
	got := m_classify(ws)
	for i, w := range ws {
		want := 0
		if w == "a" {
			want = 1
		} else if w == "b" {
			want = 2
		}
		verifAssert(got[i] == want, "m_classify: string match with default inside an inner function")
	}
	verifCover("end")
}

func Harness_C01_m_literals() {
	verifAssert(m_lit_plain() == "100% done\t\"q\"", "m_lit_plain: a plain literal with % and escapes")
	verifAssert(m_lit_interp_nohole() == "100% done", "m_lit_interp_nohole: an interpolated literal without holes keeps its %")
	verifAssert(m_lit_interp_braces() == "{x} 5%", "m_lit_interp_braces: escaped braces and %")
	verifAssert(m_lit_raw_nohole() == "50% \"off\"", "m_lit_raw_nohole: a raw interpolated literal without holes")
	n := verifInt("n")
	verifAssume(0 <= n)
	verifAssume(n < 100)
	s := symBuf("s", 1)
	verifAssert(m_lit_interp_hole(n, s) == itoaV(n)+"% of "+s+"%", "m_lit_interp_hole: holes next to %")
	verifCover("end")
}
