package main

// References and harnesses for p_real.fo: language features used by fc's own
// sources, the samples and the documentation that no other corpus file had.

import "github.com/karino2/folang/pkg/frt"

func symTok(tag string) (RTok, int, int, string) { // value, case index, int payload, string payload
	switch verifChoice(tag+".case", 5) {
	case 0:
		s := symBuf(tag+".s", 1)
		return New_RTok_RIdent(s), 0, 0, s
	case 1:
		n := verifInt(tag + ".n")
		return New_RTok_RNum(n), 1, n, ""
	case 2:
		return New_RTok_RLParen, 2, 0, ""
	case 3:
		return New_RTok_RRParen, 3, 0, ""
	}
	return New_RTok_REof, 4, 0, ""
}

func Harness_C01_r_ctors_records() {
	xs := symInts("xs", maxLenEnv())
	got := r_ctor_values(xs)
	verifAssert(len(got) == len(xs)+1, "r_ctor_values: length")
	for i := range xs {
		verifAssert(got[i] == New_RTok_RNum(xs[i]), "r_ctor_values: a constructor used as a function value in Map")
	}
	verifAssert(got[len(xs)] == New_RTok_RNum(7), "r_ctor_values: a constructor as a pipe stage")
	n := verifInt("n")
	ty := r_nested_ctor(n)
	sl, ok := ty.(RTy_RTSlice)
	verifAssert(ok, "r_nested_ctor: outer constructor")
	if ok {
		fn, ok2 := sl.Value.Elem.(RTy_RTFunc)
		verifAssert(ok2 && len(fn.Value.Targets) == 2 && fn.Value.Targets[0] == RTy(RTy_RTInt{}), "r_nested_ctor: constructor applied to a record literal holding a constructor")
	}
	a, b := verifInt("a"), verifInt("b")
	verifAssert(r_qualified(a, b) == a*100+b+b*100+a, "r_qualified: type-qualified record literals, also as an unparenthesised argument")
	verifCover("end")
}

func Harness_C01_r_matches() {
	t, k, n, s := symTok("t")
	_ = n
	verifAssert(r_is_atom(t) == (k == 0 || k == 1), "r_is_atom: payload cases matched without binder, true / false literals")
	at := verifChoice("at", 3)
	d := verifInt("d")
	st := RState{Toks: []RTok{t, New_RTok_RLParen}, At: at, Depth: d}
	want := d
	cur := 4
	if at == 0 {
		cur = k
	} else if at == 1 {
		cur = 2
	}
	switch cur {
	case 2:
		want = d + 1
	case 3:
		want = d - 1
	case 4:
		want = -1
	}
	verifAssert(r_match_field(st) == want, "r_match_field: match on a parenthesised call; r_cur: if / else over library calls")
	line := verifInt("line")
	name := []string{"root", "leaf", "x"}[verifChoice("name", 3)]
	nd := RNode{Name: name, Pos: RPos{Line: line, Col: 3}, Kids: []RNode{{Name: "k", Pos: RPos{Line: 5, Col: 6}}}}
	wk := 1
	if name == "root" {
		wk = 0
	} else if name == "leaf" {
		wk = line
	}
	verifAssert(r_node_kind(nd) == wk, "r_node_kind: string match on a field access")
	verifAssert(r_deep(nd) == 5+3, "r_deep: field access chains through a library call result")
	var w RWrap = New_RWrap_RWVar(RVar{Name: s, Ty: New_RTy_RTInt})
	verifAssert(r_wrap_name(w) == s && r_wrap_name(New_RWrap_RWNone) == "none", "r_wrap_name: a payload of record type, field access in the arm")
	verifAssert(r_is_paren(t) == (k == 2 || k == 3), "r_is_paren: union values compared with =")
	verifCover("end")
}

func Harness_C01_r_step() {
	t0, k0, n0, _ := symTok("t0")
	t1, k1, n1, _ := symTok("t1")
	d := verifInt("d")
	st := RState{Toks: []RTok{t0, t1}, At: 0, Depth: d}
	var got RState
	og := observe(func() { got = r_step(st) })
	at, depth := 1, d
	var em []string
	switch k0 {
	case 2:
		depth = d + 1
		em = append(em, "open")
		if depth > 2 {
			em = append(em, "deep")
		}
	case 3:
		depth = d - 1
	case 1:
		if k1 == 1 {
			em = append(em, "two numbers")
			at, depth = 2, d+n0+n1
		} else {
			depth = d + n0
		}
	case 4:
		at = 0
	}
	verifAssert(got.At == at && got.Depth == depth && len(got.Toks) == 2, "r_step: arms that are blocks, nested matches, inner default arm before an outer arm")
	verifAssert(sameObs(og, obs{nil, em}), "r_step: effects of the taken arm only")
	verifCover("end")
}

func Harness_C01_r_units() {
	a := verifInt("a")
	verifAssert(r_fresh_depth() == -1, "r_fresh_depth: a () function as the left side of a pipe")
	og := observe(func() { r_discard(a) })
	verifAssert(sameObs(og, obs{[]int{a, a + 1}, nil}), "r_discard: discarded non-unit statements, () as the final expression")
	og = observe(func() { r_ifonly(a) })
	want := []string{"start"}
	if a > 0 {
		want = append(want, "pos")
	}
	verifAssert(sameObs(og, obs{nil, want}), "r_ifonly: if without else as the final expression")
	og = observe(func() { r_ifonly_line(a) })
	want = nil
	if a > 0 {
		want = append(want, "pos")
	}
	want = append(want, "end")
	verifAssert(sameObs(og, obs{nil, want}), "r_ifonly_line: one-line if without else")
	t, k, _, s := symTok("t")
	og = observe(func() { r_unit_match(t) })
	want = []string{"before"}
	if k == 0 {
		want = append(want, s)
	} else if k == 1 {
		want = append(want, "num")
	}
	want = append(want, "after")
	verifAssert(sameObs(og, obs{nil, want}), "r_unit_match: a unit match as a statement in the middle of a block")
	og = observe(func() { r_unit_match_last(t) })
	want = nil
	if k == 0 {
		want = append(want, s)
	}
	verifAssert(sameObs(og, obs{nil, want}), "r_unit_match_last: a unit match as the final expression")
	x, y := symBuf("x", 1), symBuf("y", 1)
	og = observe(func() { r_iter_partial([]string{x, y}) })
	verifAssert(sameObs(og, obs{nil, []string{"> " + x, "> " + y, "< " + x, "< " + y}}), "r_iter_partial: partial application of a unit-returning function")
	xs := symInts("xs", maxLenEnv())
	var sum int
	og = observe(func() { sum = r_block_lambda(xs) })
	ws := 0
	var wf []string
	for _, v := range xs {
		ws += v * 2
		wf = append(wf, "fold")
	}
	verifAssert(sum == ws && sameObs(og, obs{nil, wf}), "r_block_lambda: a lambda with a block body")
	og = observe(func() { r_unit_lambda([]string{x, y}) })
	verifAssert(sameObs(og, obs{nil, []string{x, y}}), "r_unit_lambda: a lambda that returns unit")
	verifCover("end")
}

func Harness_C01_r_generic_values() {
	xs := symInts("xs", maxLenEnv())
	got := r_stored_generic(xs)
	verifAssert(len(got) == len(xs), "r_stored_generic: length")
	for i := range xs {
		verifAssert(got[i] == xs[i]+2, "r_stored_generic: a stored partial application of a generic library function used twice")
	}
	a, b, c, d := verifInt("a"), verifInt("b"), verifInt("c"), verifInt("d")
	ps := []RPos{{Line: a, Col: b}, {Line: c, Col: d}}
	u := r_unapplied(ps)
	verifAssert(sameInts(u.E0, []int{a, c}) && sameInts(u.E1, []int{b, d}), "r_unapplied: frt.Fst passed unapplied, _.Field shorthand in Map")
	ws := a
	if d < b {
		ws = c
	}
	verifAssert(r_sort_by_field(ps) == ws, "r_sort_by_field: _.Field as a key function and as a pipe stage")
	verifAssert(r_use_fac(a) == New_RTok_RNum(a), "r_use_fac: unused un-annotated parameters, partial application stored in a dict of functions")
	l := r_lits(a)
	verifAssert(l.E0 == 3 && l.E1 == a && l.E2 == 2, "r_lits: slice literals of union values, record literals and slices")
	s := symBuf("s", 1)
	tp := r_tuple_pipe(a, s)
	verifAssert(tp.E0 == s && tp.E1 == a, "r_tuple_pipe: a tuple literal as the left side of a pipe into an inferred generic function")
	ch := r_chain(a)
	sl, ok := ch.E1.(RTy_RTSlice)
	verifAssert(ch.E0 == a && ok && sl.Value.Elem == RTy(RTy_RTInt{}), "r_chain: record literal |> constructor |> generic pair maker")
	verifCover("end")
}

func Harness_C01_r_lets_annotations() {
	a := verifInt("a")
	t, k, n, _ := symTok("t")
	got := r_destr_multi(a, t)
	x, y := 0, a
	if a > 0 {
		x, y = a, 1
	}
	p, q := 0, "other"
	if k == 1 {
		p, q = n, "num"
	}
	verifAssert(got.E0 == x+y && got.E1 == q && got.E2 == x+p, "r_destr_multi: destructuring lets over multi-line if / match / pipeline, let with the right side on the next line")
	kid := RNode{Name: "k"}
	tree := RNode{Name: "r", Kids: []RNode{kid, {Name: "m", Kids: []RNode{kid}}}}
	verifAssert(r_count_kids(tree) == 4 && r_count_kids(kid) == 1, "r_count_kids: the function itself as a value inside its own body")
	s := symBuf("s", 1)
	calls := 0
	g := r_gen_use(func() int { calls++; return a }, frt.NewTuple2(3, s))
	verifAssert(g.E0 == a+3 && len(g.E1) == 2 && g.E1[0] == s && g.E1[1] == s && calls == 1, "r_gen_use: function-typed and tuple-typed parameters, tuple / slice result annotation")
	tu := r_table_use(s, a)
	verifAssert(tu.E0 == a && tu.E1 == 0, "r_table_use: a top-level dictionary, frt.Empty at a slice type")
	verifCover("end")
}

func Harness_C01_r_strings_misc() {
	l, c := verifInt("l"), verifInt("c")
	verifAssume(0 <= l)
	verifAssume(l < 100)
	verifAssume(0 <= c)
	verifAssume(c < 100)
	name := symBuf("name", 1)
	nd := RNode{Name: name, Kids: []RNode{{Name: "k"}, {Name: "j"}}}
	verifAssert(r_holes(RPos{Line: l, Col: c}, nd) == name+"@"+itoaV(l)+":"+itoaV(c)+" kids=2", "r_holes: holes that are field accesses, a local named len")
	a, b := symBuf("a", 1), symBuf("b", 1)
	cb := verifBool("cb")
	want := 3
	if a > b {
		want = 1
	} else if a < b && !cb {
		want = 2
	}
	verifAssert(r_str_order(a, b, cb) == want, "r_str_order: string ordering, not as an operand of &&")
	x, y := verifInt("x"), verifInt("y")
	verifAssert(r_goeval(x, y) == x*y+1+x, "r_goeval: GoEval reading local variables")
	verifCover("end")
}

func Harness_C01_r_stmt_match_value() {
	t, k, n, _ := symTok("t")
	a := verifInt("a")
	var got int
	og := observe(func() { got = r_stmt_match_value(t, a) })
	w := 0
	if k == 1 {
		w = n
	}
	verifAssert(got == a+1 && sameObs(og, obs{[]int{w}, []string{"after"}}), "r_stmt_match_value: the value of a statement match is dropped, the block goes on")
	s := []string{"x", "y"}[verifChoice("s", 2)]
	og = observe(func() { got = r_stmt_strmatch_value(s, a) })
	w = 2
	if s == "x" {
		w = 1
	}
	verifAssert(got == a+2 && sameObs(og, obs{[]int{w}, []string{"after"}}), "r_stmt_strmatch_value: the same for a string match")
	verifCover("end")
}

func Harness_C01_r_not_chain() {
	a, b := verifBool("a"), verifBool("b")
	c := verifInt("c")
	t := r_not_chain(a, b, c)
	verifAssert(t.E0 == (!a && b) && t.E1 == ((!a || !b) && a) && t.E2 == (!(c > 1) && b), "r_not_chain: not applies to one term; && and || share a rank and group to the left")
	verifCover("end")
}

func Harness_C01_r_neq_empty() {
	xs := symInts("xs", maxLenEnv())
	t := r_neq_empty(xs)
	verifAssert(t.E0 && !t.E1, "r_neq_empty: an empty Filter result = slice.New (), and <> is its negation")
	verifCover("end")
}
