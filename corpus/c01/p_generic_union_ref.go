package main

func Harness_C01_d_generic_union() {
	a := verifInt("a")
	want := -1
	if a > 0 {
		want = a + 1
	}
	verifAssert(d_generic_union(a) == want, "d_generic_union: generic union built in both if branches")
	verifCover("end")
}
