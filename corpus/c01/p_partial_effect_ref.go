package main

func Harness_C01_pe_partial_effect() {
	x, y := verifInt("x"), verifInt("y")
	var got, want int
	og := observe(func() { got = pe_partial_effect(x, y) })
	ow := observe(func() {
		a := tr(x) // evaluated once, when g is bound
		want = (a - 2*2 + 3*3) + (a - 2*y + 3*5)
	})
	verifAssert(got == want, "pe_partial_effect: result")
	verifAssert(sameObs(og, ow), "pe_partial_effect: the argument of a partial application is evaluated once, at the binding")
	verifCover("end")
}
