package main

// References (F#-style strict left-to-right call-by-value semantics, written
// by hand from the Folang source) and harnesses for p_basic.fo.

import "github.com/karino2/folang/pkg/frt"

func ref_add3(a, b, c int) int { return a - 2*b + 3*c }

func Harness_C01_b_let() {
	a, b := verifInt("a"), verifInt("b")
	var got, want int
	og := observe(func() { got = b_let(a, b) })
	ow := observe(func() {
		x := tr(a)
		y := tr(b)
		z := x*2 - y
		want = z + x
	})
	verifAssert(got == want, "b_let: result")
	verifAssert(sameObs(og, ow), "b_let: order of effects")
	verifCover("end")
}

func Harness_C01_b_closure() {
	a, b := verifInt("a"), verifInt("b")
	var got, want int
	og := observe(func() { got = b_closure(a, b) })
	ow := observe(func() {
		k := tr(a)
		v := tr(b)
		want = (v + k) + k
	})
	verifAssert(got == want, "b_closure: closures capture locals")
	verifAssert(sameObs(og, ow), "b_closure: order of effects")
	verifCover("end")
}

func Harness_C01_b_shadow() {
	a := verifInt("a")
	x := a + 1
	verifAssert(b_shadow(a) == (x+a)*x, "b_shadow: lexical scoping of a shadowed parameter")
	verifCover("end")
}

func Harness_C01_b_partial() {
	a, b, c := verifInt("a"), verifInt("b"), verifInt("c")
	verifAssert(b_partial1(a, b, c) == ref_add3(a, b, c), "b_partial1: partial application one argument at a time")
	verifAssert(b_partial2(a, b, c) == ref_add3(a, b, c)+ref_add3(a, b, a), "b_partial2: stored partial application applied twice")
	verifAssert(b_partial_pipe(a, b, c) == ref_add3(a, b, c), "b_partial_pipe: pipe into a partial application")
	xs := symInts("xs", maxLenEnv())
	got := b_partial_map(a, xs)
	verifAssert(len(got) == len(xs), "b_partial_map: length")
	for i := range xs {
		verifAssert(got[i] == ref_add3(a, 1, xs[i]), "b_partial_map: partial application as a function argument")
	}
	verifCover("end")
}

func Harness_C01_b_chains() {
	a, b, c := verifInt("a"), verifInt("b"), verifInt("c")
	verifAssert(b_arith_chain(a, b, c) == a-b*c-a/2*b+c*3/2-a, "b_arith_chain: * and / bind tighter than + and -, equal ranks group to the left")
	verifAssert(b_cmp_chain(a, b) == (a+1 == b*2-1), "b_cmp_chain: = is looser than arithmetic")
	verifCover("end")
}

func Harness_C01_b_pipes() {
	a := verifInt("a")
	verifAssert(b_pipe_chain(a) == ((a+1)*2)+1, "b_pipe_chain: pipes nest left")
	verifAssume(0 <= a && a < 100)
	var got int
	og := observe(func() { got = b_pipe_unit(a) })
	verifAssert(got == a+1, "b_pipe_unit: result")
	verifAssert(len(og.emitted) == 1 && og.emitted[0] == frt.Sprintf1("v=%d", a), "b_pipe_unit: pipe into a unit function runs it once")
	verifCover("end")
}

func Harness_C01_b_if() {
	a, b := verifInt("a"), verifInt("b")
	var got, want int
	og := observe(func() { got = b_if_value(a, b) })
	ow := observe(func() {
		if a > b {
			want = tr(1)
		} else if a == b {
			want = tr(2)
		} else {
			want = tr(3)
		}
	})
	verifAssert(got == want && sameObs(og, ow), "b_if_value: only the taken branch is evaluated")
	og = observe(func() { got = b_if_stmt(a) })
	ow = observe(func() {
		if a > 0 {
			emit("pos")
		} else {
			emit("nonpos")
		}
		if a > 10 {
			emit("big")
		}
		want = a + 1
	})
	verifAssert(got == want && sameObs(og, ow), "b_if_stmt: if as a statement, if without else")
	c := verifBool("c")
	w := a
	if !c {
		w = 0 - a
	}
	verifAssert(b_if_oneline(c, a) == w+1, "b_if_oneline")
	og = observe(func() { got = b_if_nested(a, b) })
	ow = observe(func() {
		if a > 0 {
			if b > 0 {
				want = tr(11)
			} else {
				want = tr(10)
			}
		} else {
			want = tr(0)
		}
	})
	verifAssert(got == want && sameObs(og, ow), "b_if_nested")
	verifCover("end")
}

func Harness_C01_b_andor() {
	a, b := verifInt("a"), verifInt("b")
	var got, want int
	og := observe(func() { got = b_andor(a, b) })
	ow := observe(func() {
		p := trb(1, a > 0) && trb(2, b > 0)
		q := trb(3, a > 5) || trb(4, b > 5)
		if p {
			if q {
				want = 3
			} else {
				want = 2
			}
		} else {
			if q {
				want = 1
			} else {
				want = 0
			}
		}
	})
	verifAssert(got == want, "b_andor: result")
	verifAssert(sameObs(og, ow), "b_andor: && and || evaluate only the needed operand")
	verifCover("end")
}
