package main

// C09 end to end: the "never reached" fallback in accepted programs.

func Harness_C09L2_never_reached() {
	k := verifChoice("k", 3)
	x := verifInt("x")
	var s Shape = New_Shape_Dot
	if k == 0 {
		s = New_Shape_Circle(x)
	} else if k == 1 {
		s = New_Shape_Sq(x)
	}
	p, msg := tryRun(func() { n_area(s) })
	verifAssert(!p, "every value of the union reaches an arm: "+msg)
	var o Opt[int] = New_Opt_None[int]()
	if verifChoice("o", 2) == 1 {
		o = New_Opt_Some(x)
	}
	p, msg = tryRun(func() { n_or_zero(o) })
	verifAssert(!p, "every value of a generic union at the matched instantiation reaches an arm: "+msg)
	verifCover("end")
}

func Harness_C09L2_other_instantiation() {
	var so Opt[string] = New_Opt_Some("x")
	p, msg := tryRun(func() { n_pass_other(so) })
	verifAssert(!p, "the never-reached fallback is unreachable in an accepted program: "+msg)
	verifCover("end")
}
