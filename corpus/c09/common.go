package main

// Effects of corpus programs are observed through these foreign functions
// (declared to Folang with package_info _): every call appends to the trace.

var trace []int
var emitted []string

func tr(x int) int                { trace = append(trace, x); return x }
func trb(k int, b bool) bool      { trace = append(trace, k); return b }
func trs(k int, s string) string  { trace = append(trace, k); return s }
func emit(s string)               { emitted = append(emitted, s) }

type obs struct {
	trace   []int
	emitted []string
}

// observe runs f with fresh effect logs and returns what it recorded.
func observe(f func()) obs {
	trace, emitted = nil, nil
	f()
	o := obs{trace, emitted}
	trace, emitted = nil, nil
	return o
}

func sameObs(a, b obs) bool {
	if len(a.trace) != len(b.trace) || len(a.emitted) != len(b.emitted) {
		return false
	}
	for i := range a.trace {
		if a.trace[i] != b.trace[i] {
			return false
		}
	}
	for i := range a.emitted {
		if a.emitted[i] != b.emitted[i] {
			return false
		}
	}
	return true
}

func sameInts(a, b []int) bool {
	if len(a) != len(b) {
		return false
	}
	for i := range a {
		if a[i] != b[i] {
			return false
		}
	}
	return true
}

func symInts(name string, maxLen int) []int {
	return verifIntSlice(name, verifChoice(name+".len", maxLen+1))
}

func maxLenEnv() int { return envInt("VERIF_L", 2) }

func main() {}
