package main

// Signature pins: each assignment type-checks iff the number and order of the
// type parameters and every concrete parameter / result type are the
// principal ones (go build is the decision procedure for that clause), and
// harnesses for the behavioural part (every use of a generic function is
// instantiated independently).

import "github.com/karino2/folang/pkg/frt"

var _ func(int) int = i_add10
var _ func(int, int) int = i_addb
var _ func(string, string) bool = i_cmp
var _ func([]bool) bool = i_second[bool]
var _ func(string) string = i_id[string]
var _ func(int, string) frt.Tuple2[int, string] = i_pairup[int, string]
var _ func(frt.Tuple2[int, string]) frt.Tuple2[string, int] = i_swap[int, string]
var _ func(func(int) string, frt.Tuple2[int, bool]) frt.Tuple2[string, bool] = i_applyL[int, string, bool]
var _ func(func(int) string, int) string = i_apply[int, string]
var _ func(func(int) string, func(string) bool, int) bool = i_compose[int, string, bool]
var _ func(int, string) Pt = i_mkpt
var _ func(Pt) int = i_getx
var _ func(int) Sh = i_mkci
var _ func(frt.Tuple2[int, string]) int = i_destr[string]
var _ func(int, string) frt.Tuple2[int, string] = i_use_twice
var _ func([]string) frt.Tuple2[int, string] = i_len_head[string]
var _ func([]int) []int = i_map_inc
var _ func(int, string, bool) frt.Tuple3[bool, int, string] = i_three[int, string, bool]
var _ func(func() int) int = i_unit_fn[int]
var _ func(int) frt.Tuple2[GBox[int], GBox[int]] = i_dup[int]
var _ func() frt.Tuple2[GBox[int], GBox[int]] = i_dup_int
var _ func() frt.Tuple2[GBox[string], GBox[string]] = i_dup_str
var _ func(GRes[int], GRes[int]) frt.Tuple2[GRes[int], GRes[int]] = i_twice_union
var _ func(int, int) bool = i_lt
var _ func(int, int) bool = i_gt
var _ func(int, int) bool = i_le
var _ func(int, int) bool = i_ge
var _ func(string, string) bool = i_eq
var _ func(string, string) bool = i_ne
var _ func(int, bool) bool = i_logic
var _ func([]int) []int = i_cmp_lambda
var _ func() frt.Tuple2[GRes[int], GRes[int]] = i_dupu_int
var _ func() frt.Tuple2[GRes[string], GRes[string]] = i_dupu_str
var _ func(int, int, int, int) int = i_chain
var _ func(int, string, string) frt.Tuple3[int, bool, int] = i_chain2
var _ func(int, string) GPair[int, string] = i_mkgp[int, string]
var _ func(int) GPair[int, string] = i_gp_mixed
var _ func(GPair[int, string]) GPair[string, int] = i_gp_swap
var _ func(int, string, bool) GPair[GPair[int, string], bool] = i_gp_nested[int, string, bool]
var _ func(int) int = i_ret_ident
var _ func(int, string) frt.Tuple2[int, string] = i_ret_pair
var _ func(string) []string = i_ret_slice
var _ func(bool, string, string) string = i_ret_pick
var _ func(int) int = i_ret_use
var _ func([]int) []int = i_inc_all
var _ func([]frt.Tuple2[int, string]) []int = i_fsts[int, string]
var _ func(int, string, bool) GRes[int] = i_const_fac[int, string, bool]
var _ func(int) func(string, int) GRes[int] = i_use_fac
var _ func() GRes[int] = i_none
var _ func(int, string) string = i_tuple_pipe[int, string]
var _ func([]int) []int = i_rec_map
var _ func(func() int, frt.Tuple2[int, string]) frt.Tuple2[int, []string] = i_annot
var _ func(string) [][]string = i_lits[string]
var _ func(int) []int = i_slice_second
var _ func(int, int) []int = i_slice_third
var _ func(string) []string = i_slice_call
var _ func(frt.Tuple3[int, string, bool]) bool = i_third[int, string, bool]
var _ func(frt.Tuple2[int, string], frt.Tuple2[bool, float64]) frt.Tuple2[int, float64] = i_ends[int, string, bool, float64]

func Harness_C02_generic_uses() {
	n := verifInt("n")
	s := symBuf("s", 1)
	t := i_use_twice(n, s)
	verifAssert(t.E0 == n && t.E1 == s, "two uses of one generic function at different types in one body")
	p := i_applyL(func(x int) int { return x + 1 }, frt.NewTuple2(n, s))
	verifAssert(p.E0 == n+1 && p.E1 == s, "i_applyL")
	verifAssert(i_compose(func(x int) int { return x * 2 }, func(y int) bool { return y > 3 }, n) == (n*2 > 3), "i_compose applies f then g")
	sw := i_swap(frt.NewTuple2(n, s))
	verifAssert(sw.E0 == s && sw.E1 == n, "i_swap")
	th := i_three(n, s, true)
	verifAssert(th.E0 && th.E1 == n && th.E2 == s, "i_three")
	verifAssert(i_second([]int{n, n + 1, 5}) == n+1, "i_second")
	verifCover("end")
}
