package main

// References and harnesses for t_basic.fo (tinyfo profile).  The same file is
// linked once with tinyfo's output and once with fc's output.

func refT3(a, b, c int) int { return a - b - b + c + c + c }

func symShapeT(tag string) (Shape, int, int) {
	switch verifChoice(tag+".case", 3) {
	case 0:
		r := verifInt(tag + ".r")
		return New_Shape_Circle(r), 0, r
	case 1:
		w := verifInt(tag + ".w")
		return New_Shape_Sq(w), 1, w
	}
	return New_Shape_Dot, 2, 0
}

func Harness_C17_arith_if() {
	a, b := verifInt("a"), verifInt("b")
	var got, want int
	og := observe(func() { got = t_arith(a, b) })
	ow := observe(func() {
		x := tr(a)
		y := tr(b)
		want = x + y - a
	})
	verifAssert(got == want && sameObs(og, ow), "t_arith: let, arithmetic, order of effects")
	og = observe(func() { got = t_if(a, b) })
	ow = observe(func() {
		if a > b {
			want = tr(1)
		} else if a == b {
			want = tr(2)
		} else {
			want = tr(3)
		}
	})
	verifAssert(got == want && sameObs(og, ow), "t_if: only the taken branch is evaluated")
	og = observe(func() { got = t_andor(a, b) })
	ow = observe(func() {
		p := trb(1, a > 0) && trb(2, b > 0)
		q := trb(3, a > 5) || trb(4, b > 5)
		switch {
		case p && q:
			want = 3
		case p:
			want = 2
		case q:
			want = 1
		default:
			want = 0
		}
	})
	verifAssert(got == want && sameObs(og, ow), "t_andor: && and || evaluate only the needed operand")
	verifCover("end")
}

func Harness_C17_unions() {
	s, k, v := symShapeT("s")
	want := 0
	switch k {
	case 0:
		want = v + v + v
	case 1:
		want = v + v
	}
	verifAssert(t_area(s) == want, "t_area: match dispatches on the case and binds the payload")
	var got int
	og := observe(func() { got = t_match_default(s) })
	w := 2
	if k == 2 {
		w = 1
	}
	verifAssert(got == w && len(og.trace) == 1 && og.trace[0] == w, "t_match_default: default arm")
	kk := verifChoice("k", 3)
	a := verifInt("a")
	m := t_mk(kk, a)
	switch kk {
	case 0:
		verifAssert(m == New_Shape_Circle(a), "t_mk: Circle")
	case 1:
		verifAssert(m == New_Shape_Sq(a), "t_mk: Sq")
	default:
		verifAssert(m == New_Shape_Dot, "t_mk: Dot")
	}
	verifCover("end")
}

func Harness_C17_data() {
	a, b, c := verifInt("a"), verifInt("b"), verifInt("c")
	verifAssert(t_record(a, b) == a-b, "t_record")
	s := symBuf("s", 1)
	p := t_pair(a, s)
	verifAssert(p.E0 == s && p.E1 == a+1, "t_pair: pairs and destructuring")
	verifAssert(sameInts(t_slice(a, b), []int{a, b}), "t_slice: slice literal and Take")
	verifAssert(t_pipe(a) == a+2, "t_pipe")
	verifAssert(t_partial(a, b, c) == refT3(a, b, c), "t_partial: stored partial application")
	verifAssert(t_partial_pipe(a, b, c) == refT3(a, b, c), "t_partial_pipe: pipe into a partial application")
	xs := symInts("xs", 2)
	ys := t_map(xs)
	verifAssert(len(ys) == len(xs), "t_map: length")
	for i := range xs {
		verifAssert(ys[i] == xs[i]+1, "t_map: function value as argument")
	}
	var got int
	og := observe(func() { got = t_unit_call(a) })
	verifAssert(got == a+1 && len(og.emitted) == 1 && og.emitted[0] == "x", "t_unit_call: package_info call with unit result")
	verifCover("end")
}

func Harness_C17_generic_twice() {
	a := verifInt("a")
	s := symBuf("s", 1)
	r := t_generic_twice(a, s)
	verifAssert(r.E0 == s && r.E1 == a, "t_generic_twice: a generic package_info function is instantiated independently at every call")
	xs, ss := []int{a, 2}, []string{s, "k"}
	verifAssert(t_take_twice(xs, ss) == 2, "t_take_twice")
	h := t_head_twice(xs, ss)
	verifAssert(h.E0 == s && h.E1 == a, "t_head_twice")
	verifCover("end")
}

func Harness_C17_operator_chains() {
	a, b := verifInt("a"), verifInt("b")
	p := verifBool("p")
	verifAssert(t_ops1(a, b, p) == (p && a != b), "t_ops1: <> binds tighter than &&")
	verifAssert(t_ops2(a, b, p) == (p || a == b), "t_ops2: = binds tighter than ||")
	verifAssert(t_ops3(a, b, p) == (a == b && p), "t_ops3: = on the left of &&")
	verifAssert(t_ops4(a, b) == a-b-a+b+b, "t_ops4: + and - associate to the left")
	verifAssert(t_ops5(a, b) == (a+1 > b-1), "t_ops5: arithmetic binds tighter than comparison")
	verifCover("end")
}

func Harness_C17_effect_order() {
	a, b, c := verifInt("a"), verifInt("b"), verifInt("c")
	var got, want int
	og := observe(func() { got = t_record_effects(a, b) })
	ow := observe(func() { y := tr(a); x := tr(b); want = x - y })
	verifAssert(got == want && sameObs(og, ow), "t_record_effects: record fields are evaluated in the order written (not the declared order)")
	og = observe(func() { got = t_record_effects2(a, b) })
	ow = observe(func() { x := tr(a); y := tr(b); want = x - y })
	verifAssert(got == want && sameObs(og, ow), "t_record_effects2: record fields in declared order")
	og = observe(func() { got = t_tuple_effects(a, b) })
	ow = observe(func() { x := tr(b); tr(a); want = x })
	verifAssert(got == want && sameObs(og, ow), "t_tuple_effects: tuple components left to right")
	var gs []int
	og = observe(func() { gs = t_slice_effects(a, b) })
	ow = observe(func() { tr(b); tr(a); tr(7) })
	verifAssert(sameInts(gs, []int{b, a, 7}) && sameObs(og, ow), "t_slice_effects: slice elements left to right")
	og = observe(func() { got = t_args_effects(a, b, c) })
	ow = observe(func() { x := tr(c); y := tr(a); z := tr(b); want = refT3(x, y, z) })
	verifAssert(got == want && sameObs(og, ow), "t_args_effects: call arguments left to right")
	var sh Shape
	og = observe(func() { sh = t_union_effects(a) })
	ow = observe(func() { tr(a) })
	verifAssert(sh == New_Shape_Circle(a) && sameObs(og, ow), "t_union_effects: constructor argument evaluated once")
	verifCover("end")
}

func Harness_C17_unit_ifs() {
	a, b := verifInt("a"), verifInt("b")
	var got int
	og := observe(func() { got = t_unit_ifs(a, b) })
	ow := observe(func() {
		if a > 0 {
			emit("a pos")
			if b > 0 {
				emit("b pos")
			}
		} else {
			emit("a nonpos")
		}
		emit("mid")
		if a > 5 {
			if b > 5 {
				emit("both big")
			}
			emit("a big")
		} else {
			emit("a small")
			if b > 5 {
				emit("b big")
			}
		}
		if b > 9 {
			emit("tail")
		}
	})
	verifAssert(got == a+b && sameObs(og, ow), "t_unit_ifs: an else belongs to the if at its own column; one-line unit ifs run their statement only")
	verifCover("end")
}

func Harness_C17_paren_groups() {
	a, b, c := verifBool("a"), verifBool("b"), verifBool("c")
	x := (a || b) && c
	y := c && (a || b)
	z := (a && b) || c
	w := a && (b || c) && a
	want := 0
	switch {
	case x && y && z:
		want = 7
	case x && y:
		want = 6
	case x:
		want = 5
	case w:
		want = 4
	case z:
		want = 3
	}
	verifAssert(t_paren_groups(a, b, c) == want, "t_paren_groups: parenthesised || / && groups keep their grouping")
	i, j, k := verifInt("i"), verifInt("j"), verifInt("k")
	verifAssert(t_paren_arith(i, j, k) == (i-(j-k))-((i-j)+(k+1))+(i-(j-k)), "t_paren_arith: parenthesised arithmetic groups")
	verifCover("end")
}

func Harness_C17_cmp_all() {
	a, b := verifInt("a"), verifInt("b")
	want := 0
	if a >= b {
		want += 1
	}
	if a <= b {
		want += 2
	}
	if a > b {
		want += 4
	}
	if a < b {
		want += 8
	}
	if a == b {
		want += 16
	}
	if a != b {
		want += 32
	}
	verifAssert(t_cmp_all(a, b) == want, "t_cmp_all: >= <= > < = <> at and around the boundary")
	verifCover("end")
}

func Harness_C17_partial2() {
	a, b, c := verifInt("a"), verifInt("b"), verifInt("c")
	verifAssert(t_partial2(a, b, c) == refT3(a, b, c), "t_partial2: a partial application leaving two arguments open passes them in order")
	verifCover("end")
}
