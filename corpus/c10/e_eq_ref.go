package main

// C10 end-to-end: Folang programs comparing values produced by different
// library paths, against structural equality written by hand.

func refFilterGT(xs []int, k int) []int {
	var r []int
	for _, x := range xs {
		if x > k {
			r = append(r, x)
		}
	}
	return r
}

func Harness_C10L2_slices() {
	xs := symInts("xs", maxLenEnv())
	k, n := verifInt("k"), verifInt("n")
	var got bool
	p, msg := tryRun(func() { got = q_empty_new_vs_filter(xs, k) })
	verifAssert(!p, "= does not panic: "+msg)
	verifAssert(got == (len(refFilterGT(xs, k)) == 0), "slice.New () = (Filter that keeps nothing): empty slices are equal however produced")
	verifAssume(0 <= n && n <= len(xs))
	p, msg = tryRun(func() { got = q_take_vs_filter(xs, n, k) })
	verifAssert(!p, "= does not panic: "+msg)
	verifAssert(got == sameInts(xs[:n], refFilterGT(xs, k)), "Take n xs = Filter p xs is elementwise equality")
	if len(xs) > 0 {
		verifAssert(q_skip_vs_tail(xs), "Skip 1 xs = Tail xs")
	}
	a, b := verifInt("a"), verifInt("b")
	verifAssert(q_map_vs_lit(a, b), "Map result = literal")
	verifAssert(q_pushlast_vs_lit(a, b), "PushLast chain from New = literal")
	ys := symInts("ys", maxLenEnv())
	verifAssert(q_neq(xs, ys) == !sameInts(xs, ys), "<> is the negation of elementwise equality")
	verifCover("end")
}

func Harness_C10L2_records_unions() {
	a, b := verifInt("a"), verifInt("b")
	s := symBuf("s", 1)
	var got bool
	p, msg := tryRun(func() { got = q_rec_lower(a, b, s) })
	verifAssert(!p, "= on a record with lower-case field names does not panic: "+msg)
	verifAssert(got == (a == b && s == "t"), "= on a record with lower-case field names is structural")
	xs, ys := symInts("xs", maxLenEnv()), symInts("ys", maxLenEnv())
	verifAssert(q_rec_slice(a, xs, ys) == sameInts(xs, ys), "record holding a slice")
	k := verifChoice("k", 3)
	verifAssert(q_union(k, a, xs, ys) == (k == 2 && sameInts(xs, ys)), "union cases with payloads")
	want := s == "k" && sameInts(xs, refFilterGT(xs, a))
	verifAssert(q_tuple(a, s, xs) == want, "3-tuple holding a slice")
	verifCover("end")
}

// operands that share a backing array: PopLast / Tail return windows of
// their argument, so both sides of = alias each other
func Harness_C10L2_aliased() {
	xs := symInts("xs", maxLenEnv()+1)
	verifAssume(len(xs) > 0)
	n := verifInt("n")
	verifAssume(0 <= n)
	verifAssume(n <= len(xs))
	var got, got2 bool
	p, msg := tryRun(func() { got = q_poplast_vs_self(xs); got2 = q_poplast_neq_self(xs) })
	verifAssert(!p, "= does not panic: "+msg)
	verifAssert(!got, "PopLast xs = xs is false for a non-empty xs")
	verifAssert(got2, "PopLast xs <> xs is true for a non-empty xs")
	verifAssert(q_tail_vs_self(xs) == sameInts(xs[1:], xs), "Tail xs = xs")
	t := q_poplast_vs_take(xs, n)
	verifAssert(t.E0 == sameInts(xs[:len(xs)-1], xs[:n]), "PopLast xs = Take n xs")
	verifAssert(!t.E1, "PopLast xs = xs (second use of the same value)")
	if len(xs) >= 2 {
		verifAssert(q_tail_poplast(xs), "Tail (PopLast xs) = PopLast (Tail xs)")
	}
	verifCover("end")
}

func symStrs(tag string, n int) []string {
	k := verifChoice(tag+".len", n+1)
	if k == 0 && verifChoice(tag+".nil", 2) == 1 {
		return nil
	}
	r := []string{}
	for j := 0; j < k; j++ {
		r = append(r, symBuf(tag+itoaV(j), 1))
	}
	return r
}

func sameStrs(a, b []string) bool {
	if len(a) != len(b) {
		return false
	}
	for i := range a {
		if a[i] != b[i] {
			return false
		}
	}
	return true
}

func Harness_C10L2_string_slices() {
	xs, ys := symStrs("xs", 2), symStrs("ys", 2)
	var got bool
	p, msg := tryRun(func() { got = q_strs(xs, ys) })
	verifAssert(!p, "= on slices of strings does not panic: "+msg)
	verifAssert(got == sameStrs(xs, ys), "= on slices of strings is elementwise equality (empty slices equal however produced)")
	p, msg = tryRun(func() { got = q_str_empty(xs) })
	verifAssert(!p, "= on empty slices of strings does not panic: "+msg)
	verifAssert(got, "Filter that keeps nothing = slice.New ()")
	p, msg = tryRun(func() { got = q_rec_strs(xs, ys) })
	verifAssert(!p, "= on records holding slices of strings does not panic: "+msg)
	verifAssert(got == sameStrs(xs, ys), "record holding a slice of strings")
	verifCover("end")
}

func Harness_C10L2_bool_literals() {
	b := verifBool("b")
	a := verifInt("a")
	t := q_bool_lits(b)
	verifAssert(t.E0.E0 == b && t.E0.E1 == !b && t.E1.E0 == !b && t.E1.E1 == b, "= / <> against the literals true and false")
	u := q_bool_lits_left(b, a)
	verifAssert(u.E0.E0 == b && u.E0.E1 == b && u.E1.E0 == (a > 1) && u.E1.E1 == (a > 1), "bool literals on the left; comparisons compared with literals")
	verifCover("end")
}
