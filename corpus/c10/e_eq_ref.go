package main

// C10 end-to-end: Folang programs comparing values produced by different
// library paths, against structural equality written by hand.

func refFilterGT(xs []int, k int) []int {
	var r []int
	for _, x := range xs {
		if x > k {
			r = append(r, x)
		}
	}
	return r
}

func Harness_C10L2_slices() {
	xs := symInts("xs", maxLenEnv())
	k, n := verifInt("k"), verifInt("n")
	var got bool
	p, msg := tryRun(func() { got = q_empty_new_vs_filter(xs, k) })
	verifAssert(!p, "= does not panic: "+msg)
	verifAssert(got == (len(refFilterGT(xs, k)) == 0), "slice.New () = (Filter that keeps nothing): empty slices are equal however produced")
	verifAssume(0 <= n && n <= len(xs))
	p, msg = tryRun(func() { got = q_take_vs_filter(xs, n, k) })
	verifAssert(!p, "= does not panic: "+msg)
	verifAssert(got == sameInts(xs[:n], refFilterGT(xs, k)), "Take n xs = Filter p xs is elementwise equality")
	if len(xs) > 0 {
		verifAssert(q_skip_vs_tail(xs), "Skip 1 xs = Tail xs")
	}
	a, b := verifInt("a"), verifInt("b")
	verifAssert(q_map_vs_lit(a, b), "Map result = literal")
	verifAssert(q_pushlast_vs_lit(a, b), "PushLast chain from New = literal")
	ys := symInts("ys", maxLenEnv())
	verifAssert(q_neq(xs, ys) == !sameInts(xs, ys), "<> is the negation of elementwise equality")
	verifCover("end")
}

func Harness_C10L2_records_unions() {
	a, b := verifInt("a"), verifInt("b")
	s := symBuf("s", 1)
	var got bool
	p, msg := tryRun(func() { got = q_rec_lower(a, b, s) })
	verifAssert(!p, "= on a record with lower-case field names does not panic: "+msg)
	verifAssert(got == (a == b && s == "t"), "= on a record with lower-case field names is structural")
	xs, ys := symInts("xs", maxLenEnv()), symInts("ys", maxLenEnv())
	verifAssert(q_rec_slice(a, xs, ys) == sameInts(xs, ys), "record holding a slice")
	k := verifChoice("k", 3)
	verifAssert(q_union(k, a, xs, ys) == (k == 2 && sameInts(xs, ys)), "union cases with payloads")
	want := s == "k" && sameInts(xs, refFilterGT(xs, a))
	verifAssert(q_tuple(a, s, xs) == want, "3-tuple holding a slice")
	verifCover("end")
}
